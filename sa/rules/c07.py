"""C07 — decompression bounds (DESIGN.md §4.7). Fidelity of inflate output is not decided."""
import re
from ..facts import load, S, strip, nodes, walk, is_lit, lit_name, AnalysisBroken
from ..report import Result
from .. import cfg as C
from .. import pat as P

TECHNIQUE = 'must-pass-through rule for the bomb test in every function stored in the decompressor callback slot; reaching definitions of every handed-out (data,len); abstract exploration of the decompress routine in the "ended" state; loop-path rule for the layer limits'
DECOMP = 'htp_gzip_decompressor_decompress'


def strip_addr(e):
    e = strip(e)
    if e is not None and e.get('k') == 'un' and e['op'] == '&':
        e = strip(e['e'])
    return e


def handout_sites(db, f):
    """calls that pass a data record on to the next stage: the callback slot, or the next decompressor"""
    out = []
    for b, i, c in f.calls():
        if 'fnexpr' in c and P.member_field(c['fnexpr']) == 'callback':
            out.append((b, i, c, strip_addr(c['args'][0])))
        elif c.get('callee') == DECOMP and f.name == DECOMP:
            out.append((b, i, c, strip_addr(c['args'][1])))
    return out


def run(repo='/repo', tier='quick'):
    res = Result('C07')
    db = load(repo)
    res.rule('C07.a', 'in each function stored into a decompressor callback slot every path to `return HTP_OK` passes the false edge of (entity_len > bomb_limit && entity_len > 2048 * message_len), after entity_len += len')
    res.rule('C07.b', 'every record handed to the next stage carries either the decompressor\'s own buffer with len GZIP_BUF_SIZE or GZIP_BUF_SIZE - avail_out (<= 8 KiB), or the input record unchanged')
    res.rule('C07.c', 'an error silences the decompressor: a failed callback ends it, and in the ended state no path of the decompress routine hands out the buffer again')
    res.rule('C07.d', 'the restart / pass-through decision is only taken on a stream from which no earlier input was consumed')
    res.rule('C07.e', 'layer limits: inside the multi-coding loop every decompressor creation is preceded by the layer-limit test (and the LZMA limit for LZMA); the single-coding arm creates exactly one')
    cbs = sorted(db.slots().get(('htp_decompressor_t', 'callback'), ()))
    if not cbs:
        raise AnalysisBroken('no function is stored into htp_decompressor_t.callback')
    res.analysed['decompressor callbacks'] = cbs
    # ---------------- C07.a
    for name in cbs:
        f = db.get(name)
        side = 'request' if 'request_entity_len' in str(f.d) else 'response'
        ent = 'd->tx->%s_entity_len' % side
        msg = 'd->tx->%s_message_len' % side
        lim = 'd->tx->connp->cfg->compression_bomb_limit'
        # locate the two tests and the ratio constant
        ratio = None
        for b in f.blocks:
            c = f.cond_of(b)
            if not c:
                continue
            a = P.canon(c[0])
            if a and a[0] == ent and a[1] == '>' and msg in a[2]:
                for l in nodes(c[0], lambda y: y.get('k') == 'lit'):
                    ratio = l['v']
        n = 0
        bad = None
        for atoms, events, end, seq in P.enum_paths_seq(f, (f.entry, -1)):
            if end[0] != 'return':
                continue
            facts = [a for a, bb in atoms]
            t1 = [a for a in facts if a[0] == ent and a[2] == lim]
            t2 = [a for a in facts if a[0] == ent and msg in a[2]]
            rv = lit_name(P.ret_value(end[3]))
            if rv == 'HTP_OK':
                n += 1
                acc = sum(1 for x in seq if x[0] == 'stmt' for w in P.assigns_field(x[3], '%s_entity_len' % side) if w.get('op') == '+=')
                passed = any(a[1] == '<=' for a in t1) or any(a[1] == '<=' for a in t2)
                if not passed or acc != 1:
                    bad = end[3]
            else:
                if any(a[1] == '>' for a in t1) and any(a[1] == '>' for a in t2):
                    pass
        key = name + ':bomb-test'
        if bad is not None:
            res.violated('C07.a', key, 'a path of %s returns HTP_OK without having passed the bomb test (%s > limit && %s > ratio * %s) after the accounting: output is not bounded' % (name, ent, ent, msg), bad['loc'])
        else:
            res.holds('C07.a', key, 'all %d paths returning HTP_OK pass the false edge of the bomb test after %s += len' % (n, ent), f.loc)
        res.check(ratio == 2048, 'C07.a', name + ':ratio', 'ratio constant is 2048', 'the bomb ratio constant is %s, documented 2048' % ratio, f.loc)
        # the test is strict on both arms and the true-true edge returns an error
        for b in f.blocks:
            c = f.cond_of(b)
            if c and (P.canon(c[0]) or ('',))[0] == ent and msg in (P.canon(c[0]) or ('', '', ''))[2]:
                tb = f.blocks[b]['succs'][0]
                okerr = all(end[0] == 'return' and lit_name(P.ret_value(end[3])) == 'HTP_ERROR' for atoms, events, end in P.enum_paths(f, (tb, -1)))
                res.check(okerr, 'C07.a', name + ':bomb-returns-error', 'a detected bomb returns HTP_ERROR', 'the bomb arm does not return an error', f.blocks[b]['stmts'][-1]['loc'])

    # ---------------- C07.b
    f = db.get(DECOMP)
    gz = None
    for x in nodes([st for b, i, st in f.stmts()], lambda y: y.get('k') == 'lit' and y.get('name') == 'GZIP_BUF_SIZE'):
        gz = x['v']
    res.check(gz == 8192, 'C07.b', 'GZIP_BUF_SIZE', 'output block is 8192 bytes', 'GZIP_BUF_SIZE is %s (documented one 8 KiB output buffer)' % gz, f.loc)

    def key_of(l):
        l = strip(l)
        if l is None:
            return None
        if l.get('k') == 'member' and strip(l['base']).get('k') == 'var' and l['field'] in ('len', 'data'):
            return (strip(l['base']).get('did'), l['field'])
        if l.get('k') == 'var' and l.get('decl') == 'local':
            return (l.get('did'), '')
        return None
    rd = C.reaching_defs(f, key_of)
    sites = handout_sites(db, f)
    res.floor('C07.b', 'hand-out sites in ' + DECOMP, len(sites), 5)
    BUF = 'drec->buffer'
    OKLEN = {'GZIP_BUF_SIZE', '(GZIP_BUF_SIZE - drec->stream.avail_out)'}
    classes = {}
    for b, i, c, X in sites:
        if X is None or X.get('k') != 'var':
            res.violated('C07.b', 'handout:' + P.K(X), 'a record that is not a local data record is handed on', c['loc'])
            continue
        did = X.get('did')

        def forms(field):
            ids, tbl = rd(b, i, (did, field))
            out = set()
            for d_ in ids:
                if d_ == 'ENTRY':
                    out.add('UNINIT')
                    continue
                n_ = tbl[d_]
                r = n_.get('r') if n_.get('k') == 'assign' else n_.get('init')
                out.add(P.K(r))
            return out
        datas, lens = forms('data'), forms('len')
        # resolve a local length variable one step
        lens2 = set()
        for l_ in lens:
            vdefs = []
            for bb, ii, st in f.stmts():
                for dcl in nodes(st, lambda y: y.get('k') == 'decl'):
                    for v in dcl['vars']:
                        if v['name'] == l_ and 'init' in v:
                            vdefs.append(P.K(v['init']))
            lens2 |= set(vdefs) if vdefs else {l_}
        kind = None
        if datas <= {BUF, '0'} and BUF in datas:
            kind = 'decompressed'
            ok = lens2 <= OKLEN
        elif datas == {'d->data'}:
            kind = 'pass-through'
            ok = lens2 == {'d->len'}
        else:
            ok = False
        classes[(b, i)] = kind
        key = 'handout:%s:%s:%s' % (X['name'], '/'.join(sorted(datas)), '/'.join(sorted(lens2)))
        res.check(ok, 'C07.b', key, '%s record: data %s, len %s' % (kind, sorted(datas), sorted(lens2)),
                  'a record is handed to the next stage with data %s and len %s: not bounded by one output buffer / not the input unchanged' % (sorted(datas), sorted(lens2)), c['loc'])

    # ---------------- C07.c (1) failed callback ends the decompressor in the decompressing arms
    for b in f.blocks:
        facts = [a for a, e in P.facts_at(f, b)]
        rets = [st for st in f.blocks[b]['stmts'] if st.get('k') == 'return']
        if ('callback_rc', '!=', 'HTP_OK') in facts and rets:
            # which hand-out produced callback_rc? the nearest dominating site(s)
            dom = C.dominators(f)
            near = [k for (sb, si), k in classes.items() if sb in dom[b] or any(sb in dom[p] for p in f.preds.get(b, []))]
            ended = any(c.get('callee') == 'htp_gzip_decompressor_end' for c in nodes(f.blocks[b]['stmts'], lambda y: y.get('k') == 'call'))
            cond_b = [e for a, e in P.facts_at(f, b) if a == ('callback_rc', '!=', 'HTP_OK')][0][0]
            kinds = {classes.get((sb, si)) for (sb, si) in classes if sb == cond_b or cond_b in C.reachable(f, sb) and sb in dom[cond_b]}
            # classify by the closest preceding hand-out sites (those that can reach the test without passing another hand-out)
            closest = set()
            for (sb, si), k in classes.items():
                def visit(bb, ii, st, _t=cond_b):
                    return (bb, ii) in classes and (bb, ii) != (sb, si)
                ends, _ = C.forward(f, (sb, si), visit)
                if cond_b in ends or cond_b == sb:
                    closest.add(k)
            key = 'error-ends-decompressor:%s' % '/'.join(sorted(k or '?' for k in closest))
            if 'decompressed' in closest:
                res.check(ended, 'C07.c', key, 'a failed delivery of decompressed output ends the decompressor before returning',
                          'a failed delivery of decompressed output returns without htp_gzip_decompressor_end(): the next call keeps inflating after the bomb was reported', rets[0]['loc'])
            else:
                res.holds('C07.c', key, 'failed pass-through delivery: nothing to end', rets[0]['loc'])
    # ---------------- C07.c (2) the ended state is silent
    endf = db.get('htp_gzip_decompressor_end')
    ends_avail = None
    for b_, i_, w in P.field_writes(endf, 'avail_out'):
        dom = C.dominators(endf)
        # the reset counts only when it is made on every path through _end() (it post-dominates the entry)
        if w['k'] == 'assign' and w['op'] == '=' and b_ in C.postdominators(endf)[endf.entry]:
            ends_avail = P.K(w['r'])
    zero_init = all(is_lit(w['r'], 0) for b_, i_, w in P.field_writes(endf, 'zlib_initialized'))
    res.check(zero_init and bool(P.field_writes(endf, 'zlib_initialized')), 'C07.c', 'end:clears-initialized', 'htp_gzip_decompressor_end() leaves zlib_initialized == 0',
              'htp_gzip_decompressor_end() does not clear zlib_initialized', endf.loc)
    state0 = {'drec->zlib_initialized': 0}
    if ends_avail == 'GZIP_BUF_SIZE':
        state0['drec->stream.avail_out'] = gz
    found = explore_dead(f, state0, classes, gz)
    res.analysed['ended-state abstract store'] = {k: v for k, v in state0.items()}
    if found:
        for (b, i), why in sorted(found.items()):
            c = [x for x in nodes(f.blocks[b]['stmts'][i], lambda y: y.get('k') == 'call')][0]
            arm = 'end-of-stream-flush' if any(a == ('d->data', '==', '0') for a in why) else 'full-buffer-flush'
            res.violated('C07.c', 'ended-state-hands-out-buffer:' + arm,
                         'with the decompressor ended (zlib_initialized == 0%s) a path of %s still hands out drec->buffer: stale output is re-delivered on every later call, unbounded by the bomb limit'
                         % ('' if len(state0) == 1 else ', avail_out == GZIP_BUF_SIZE', DECOMP), c['loc'], path_facts=[str(a) for a in why])
    else:
        res.holds('C07.c', 'ended-state-silent', 'no path from the entry of %s in the ended state %s reaches a hand-out of the decompression buffer' % (DECOMP, state0), f.loc)

    # ---------------- C07.g decompression disabled in the configuration
    res.rule('C07.g', 'zero layers when response decompression is disabled: every feasible path to a decompressor creation either passes the true edge of cfg->response_decompression_enabled, or creates exactly the coding found in response_content_encoding_processing with no library store to that field since the RESPONSE_HEADERS hook ran (the documented user override)')
    hf = db.get('htp_tx_state_response_headers')
    creations = hf.calls('htp_gzip_decompressor_create')
    res.floor('C07.g', 'decompressor creations in htp_tx_state_response_headers', len(creations), 2)
    en_key = [P.canon(hf.cond_of(b)[0]) for b in hf.blocks if hf.cond_of(b) and 'response_decompression_enabled' in S(hf.cond_of(b)[0])]
    if not en_key:
        raise AnalysisBroken('C07.g: no test of response_decompression_enabled in htp_tx_state_response_headers')
    flags = [n for n in __import__('sa.guards', fromlist=['x']).flag_locals(hf)]
    for cb, ci, cc in creations:
        npth, bad = 0, None
        for atoms, events, end, seq in P.enum_paths_seq(hf, (hf.entry, -1), stop=lambda bb, ii, st: (bb, ii) == (cb, ci), max_paths=200000, must_reach=cb):
            if end[0] != 'stop':
                continue
            # feasibility with respect to the flag locals (assigned literals only): replay the path
            cur, ok = {}, True
            hook_at = None
            stores_after_hook = 0
            for n_, x in enumerate(seq):
                if x[0] == 'stmt':
                    for a in nodes(x[3], lambda y: y.get('k') == 'assign' and y['op'] == '=' and strip(y['l']).get('k') == 'var' and strip(y['l'])['name'] in flags and is_lit(strip(y['r']))):
                        cur[strip(a['l'])['name']] = strip(a['r'])['v']
                    for d in nodes(x[3], lambda y: y.get('k') == 'decl'):
                        for v in d['vars']:
                            if v['name'] in flags and 'init' in v and is_lit(strip(v['init'])):
                                cur[v['name']] = strip(v['init'])['v']
                    if any(h == 'hook_response_headers' for h, c in P.hook_runs(x[3])):
                        hook_at = n_
                        stores_after_hook = 0
                    if hook_at is not None and n_ > hook_at and P.assigns_field(x[3], 'response_content_encoding_processing'):
                        stores_after_hook += 1
                else:
                    l, op, r = x[1]
                    if l in cur and r == '0' and op in ('==', '!='):
                        if (cur[l] == 0) != (op == '=='):
                            ok = False
                            break
            if not ok:
                continue
            npth += 1
            facts = [a for a, bb in atoms]
            enabled = any(a[0] == en_key[0][0] and a[1] == '!=' and a[2] == '0' for a in facts)
            override = hook_at is not None and stores_after_hook == 0 and P.K(cc['args'][1]) == 'tx->response_content_encoding_processing'
            if not (enabled or override):
                bad = [a for a in facts if 'enabled' in a[0] or a[0] in flags]
        tgt = [P.K(a['l']) for a in nodes(hf.blocks[cb]['stmts'][ci], lambda y: y.get('k') == 'assign' and strip(y['r']) is cc)]
        key = '%s=create(%s)%s' % (tgt[0] if tgt else '?', P.K(cc['args'][1]), ':in-loop' if any(cb in body for h, body in C.loops(hf)) else '')
        res.check(bad is None and npth > 0, 'C07.g', key, 'all %d feasible paths to this creation have decompression enabled (or are the user override)' % npth,
                  'a decompressor is created on a path where cfg->response_decompression_enabled is 0 and the coding does not come from the user: the body is decoded although zero layers are configured (path facts %s)' % (bad,), cc['loc'])

    # ---------------- C07.f header bytes carried across calls are appended, not overwritten
    res.rule('C07.f', 'a stream header that may arrive in pieces is accumulated at its running offset (memcpy destination is buffer + counter for the counter that is then advanced by the same length)')
    acc = P.accumulate_sites(f)
    if not acc:
        res.info('C07.f', 'no-accumulator', 'the decompress routine carries no partial header across calls', f.loc)
    for b, i, c, cnt, ok in acc:
        res.check(ok, 'C07.f', 'accumulate:%s' % cnt, 'memcpy appends at %s before %s += n' % (cnt, cnt),
                  'memcpy(%s, ...) fills a buffer whose fill counter %s is then advanced by the same length, but the destination is not buffer + %s: a header cut by a chunk boundary is overwritten instead of appended' % (P.K(c['args'][0]), cnt, cnt), c['loc'])

    # ---------------- C07.d
    rcalls = f.calls('htp_gzip_decompressor_restart')
    if not rcalls:
        res.info('C07.d', 'no-restart', 'the decompressor no longer restarts', f.loc)
    for b, i, c in rcalls:
        facts = [a for a, e in P.facts_at(f, b)]
        fresh = [a for a in facts if 'total_in' in a[0] or 'total_out' in a[0] or 'consumed_total' in a[0] or 'seen_input' in a[0] or 'first' in a[0]]
        res.check(bool(fresh), 'C07.d', 'restart:fresh-stream-guard', 'restart is guarded by %s' % fresh,
                  'htp_gzip_decompressor_restart() is called with only the current chunk and no guard that earlier chunks were not already consumed: when inflate fails late, output of earlier calls stays delivered and the restart re-feeds only the current chunk',
                  c['loc'], guards=[str(a) for a in facts])

    # ---------------- C07.e
    rh = db.get('htp_tx_state_response_headers')
    creates = rh.calls('htp_gzip_decompressor_create')
    res.floor('C07.e', 'decompressor creations in htp_tx_state_response_headers', len(creates), 1)
    lps = C.loops(rh)
    lim = 'tx->connp->cfg->response_decompression_layer_limit'
    lz = 'tx->connp->cfg->response_lzma_layer_limit'
    inloop = 0
    for b, i, c in creates:
        lp = [(h, body) for h, body in lps if b in body]
        if not lp:
            # single-coding arm: not in a loop => executed at most once per call
            facts = [a for a, e in P.facts_at(rh, b)]
            res.check(('ce_multi_comp', '==', '0') in facts, 'C07.e', 'single-coding-arm:one-layer', 'the single-coding arm creates one decompressor (not in a loop)',
                      'a decompressor is created outside the multi-coding loop and outside the single-coding arm', c['loc'])
            continue
        inloop += 1
        h, body = min(lp, key=lambda x: len(x[1]))
        n = 0
        bad = None
        badlz = None
        for atoms, events, end, seq in P.enum_paths_seq(rh, (h, -1), stop=lambda bb, ii, st: (bb, ii) == (b, i)):
            if end[0] != 'stop':
                continue
            n += 1
            facts = [a for a, bb in atoms]
            passed = (lim, '==', '0') in facts or any(a[1] == '<=' and a[2] == lim and 'layers' in a[0] for a in facts)
            if not passed:
                bad = facts
            # which coding is being created on this path?
            ctype = None
            for x in seq:
                if x[0] == 'stmt':
                    for w in nodes(x[3], lambda y: y.get('k') == 'assign' and P.K(y['l']) == 'cetype'):
                        ctype = lit_name(w['r'])
            if ctype == 'HTP_COMPRESSION_LZMA' and not any(a[1] == '<=' and a[2] == lz for a in facts):
                badlz = facts
        key = 'loop-create:%s' % P.K(strip(rh.blocks[b]['stmts'][i]).get('l') if strip(rh.blocks[b]['stmts'][i]).get('k') == 'assign' else c)[:40]
        res.check(bad is None and n > 0, 'C07.e', key + ':layer-limit', 'all %d loop paths to this creation pass ++layers <= limit (or limit == 0)' % n,
                  'a loop path creates a decompressor without passing the response_decompression_layer_limit test', c['loc'])
        res.check(badlz is None, 'C07.e', key + ':lzma-limit', 'LZMA layers are bounded by response_lzma_layer_limit', 'an LZMA layer is created without the response_lzma_layer_limit test', c['loc'])
    res.check(inloop >= 1, 'C07.e', 'multi-coding-loop', 'multi-coding creations are inside the token loop', 'no decompressor creation inside the multi-coding loop', rh.loc)
    # the counters compared with the limits are loop-carried: initialised before the loop, only incremented inside it
    loopbodies = [body for h, body in lps if any(b in body for b, i, c in creates)]
    body = max(loopbodies, key=len) if loopbodies else set()
    ncnt = 0
    for bb in sorted(body):
        cnd = rh.cond_of(bb)
        if not cnd or not any(k in S(cnd[0]) for k in ('response_decompression_layer_limit', 'response_lzma_layer_limit')):
            continue
        a = P.canon(cnd[0])
        if a is None or (a[2] if 'limit' in a[2] else a[0]) not in (lim, lz) or a[1] in ('==', '!='):
            continue
        for v in nodes(cnd[0], lambda y: y.get('k') == 'var' and y.get('decl') == 'local'):
            ncnt += 1
            resets = []
            for b2 in body:
                for s2 in rh.blocks[b2]['stmts']:
                    for y in nodes(s2):
                        if y['k'] == 'assign' and strip(y['l']).get('k') == 'var' and strip(y['l'])['name'] == v['name'] and y['op'] == '=':
                            resets.append(y)
                        if y['k'] == 'decl' and any(d_['name'] == v['name'] and d_.get('did') == v.get('did') for d_ in y['vars']):
                            resets.append(y)
            res.check(not resets, 'C07.e', 'limit-counter:%s:loop-carried' % v['name'], '%s is initialised before the token loop and only incremented inside it' % v['name'],
                      'the counter %s that is compared with the layer limit is (re)initialised inside the token loop: it never exceeds the limit and every coding token gets its own decompressor' % v['name'], (resets[0].get('loc') if resets else cnd[0]['loc']))
    res.floor('C07.e', 'limit counters in the token loop', ncnt, 1)
    # ---------------- C07.j the request side: one layer, only when enabled
    res.rule('C07.j', 'request bodies: a request decompressor is created only under cfg->request_decompression_enabled, outside any loop (one layer), for the coding just read from the header, after a left-over decompressor was destroyed; the compressed arms of the request body dispatch hand the data to it and shut it down at end of body')
    qf = db.get('htp_tx_process_request_headers')
    qc = qf.calls('htp_gzip_decompressor_create')
    res.floor('C07.j', 'request decompressor creations', len(qc), 1)
    qloops = C.loops(qf)
    for b, i, c in qc:
        facts = [a for a, e in P.facts_at(qf, b)]
        en = any(a[0].endswith('request_decompression_enabled') and a[1] == '!=' and a[2] == '0' for a in facts)
        inloop = any(b in body for h, body in qloops)
        coding = P.K(c['args'][1]) == 'tx->request_content_encoding' and any(a[0] == 'tx->request_content_encoding' and a[1] == '!=' and a[2] == 'HTP_COMPRESSION_NONE' for a in facts)
        res.check(en and not inloop and coding, 'C07.j', 'htp_tx_process_request_headers:create', 'under request_decompression_enabled, once, for the coding read from the header',
                  'the request decompressor is created %s' % ('without cfg->request_decompression_enabled being tested' if not en else 'inside a loop (more than one layer)' if inloop else 'for a coding other than the one just recognised'), c['loc'])
        # a left-over decompressor is destroyed first: on every path to the creation either the slot is NULL or the destroy call was made
        okd = True
        for atoms, events, end, seq in P.enum_paths_seq(qf, (qf.entry, -1), stop=lambda bb, ii, st, b=b, i=i: (bb, ii) == (b, i), must_reach=b):
            if end[0] != 'stop':
                continue
            f2 = [a for a, bb in atoms]
            destroyed = any(x[0] == 'stmt' and any(cc.get('callee') == 'htp_tx_req_destroy_decompressors' for cc in nodes(x[3], lambda y: y.get('k') == 'call')) for x in seq)
            if not destroyed and ('tx->connp->req_decompressor', '==', '0') not in f2:
                okd = False
        res.check(okd, 'C07.j', 'htp_tx_process_request_headers:left-over-destroyed', 'a left-over decompressor is destroyed (or known absent) before the new one is stored',
                  'a new request decompressor overwrites tx->connp->req_decompressor on a path that neither destroyed the old one nor knows there is none (one decompressor with its 8 KiB buffer and zlib state leaks per request)', c['loc'])
    pf = db.get('htp_tx_req_process_body_data_ex')
    dec = pf.calls('htp_gzip_decompressor_decompress')
    res.floor('C07.j', 'request-side decompress calls', len(dec), 1)
    for b, i, c in dec:
        shut = False
        for atoms, events, end, seq in P.enum_paths_seq(pf, (b, i)):
            f2 = [a for a, bb in atoms]
            if ('data', '==', '0') in f2:
                shut = shut or any(x[0] == 'stmt' and any(cc.get('callee') == 'htp_tx_req_destroy_decompressors' for cc in nodes(x[3], lambda y: y.get('k') == 'call')) for x in seq)
        res.check(shut and P.K(c['args'][0]) == 'tx->connp->req_decompressor', 'C07.j', 'htp_tx_req_process_body_data_ex:feed-and-shut-down', 'compressed request data goes to the request decompressor, which is shut down at end of body',
                  'the request body dispatch does not hand the data to tx->connp->req_decompressor, or does not shut it down when data == NULL', c['loc'])
    # ---------------- C07.h the time budget is charged with the elapsed time, not more
    res.rule('C07.h', 'time accounting: on every successful path of htp_timer_track the budget grows by 1000000 * (after.sec - before.sec) + (after.usec - before.usec) as a linear form (on the same-second arm the first term vanishes by the arm\'s guard); an over-charge switches a healthy decompressor to pass-through')
    tf = db.get('htp_timer_track')
    from .c01j import lin as _lin, sub as _sub
    npth, badt = 0, None
    for atoms, events, end, seq in P.enum_paths_seq(tf, (tf.entry, -1)):
        if end[0] != 'return' or lit_name(P.ret_value(end[3])) != 'HTP_OK':
            continue
        npth += 1
        facts = [a for a, bb in atoms]
        added = {}
        for x in seq:
            if x[0] != 'stmt':
                continue
            for w in nodes(x[3], lambda y: y.get('k') == 'assign' and y['op'] == '+=' and P.K(y['l']).startswith('*')):
                lf = _lin(tf, w['r'])
                if lf is None:
                    added = None
                    break
                for t, c in lf.items():
                    added[t] = added.get(t, 0) + c
            if added is None:
                break
        sec = [t for t in (added or {}) if t.endswith('tv_sec')]
        same_second = any(a[0].endswith('tv_sec') and a[2].endswith('tv_sec') and a[1] == '==' for a in facts)
        want_usec = {t: c for t, c in (added or {}).items() if t.endswith('tv_usec')}
        aft = [t for t in want_usec if 'after' in t]
        bef = [t for t in want_usec if 'before' in t]
        ok = added is not None and len(aft) == 1 and len(bef) == 1 and want_usec[aft[0]] == 1 and want_usec[bef[0]] == -1 and added.get('', 0) == 0
        if ok and not same_second:
            sa_ = [t for t in sec if 'after' in t]
            sb_ = [t for t in sec if 'before' in t]
            ok = len(sa_) == 1 and len(sb_) == 1 and added[sa_[0]] == 1000000 and added[sb_[0]] == -1000000
        elif ok:
            ok = not sec
        if ok:
            ok = set(added) <= set(aft + bef + sec + [''])
        if not ok:
            badt = (added, facts)
    res.check(badt is None and npth >= 2, 'C07.h', 'htp_timer_track:elapsed-time', 'both successful arms add exactly the elapsed microseconds (%d paths)' % npth,
              'htp_timer_track adds %s under %s, which is not the elapsed time 1000000 * dsec + dusec: time is over- or under-charged (an over-charge exceeds the time limit and the rest of the body is passed through compressed)' % (badt or ('', ''))[:2], tf.loc)
    # ---------------- C07.i a body state that handles closure of the stream looks at it before it can ask for more data
    res.rule('C07.i', 'close before wait: in every response body state that tests out_status == CLOSED (where the decompressor gets its end-of-data call) that test dominates every `return HTP_DATA`')
    nci = 0
    for name in sorted(P.state_functions(db, 'out')):
        sf = db.get(name)
        tests = [b for b in sf.blocks if sf.cond_of(b) and (P.canon(sf.cond_of(b)[0]) or ('', '', ''))[0] == 'connp->out_status' and P.canon(sf.cond_of(b)[0])[2] == 'HTP_STREAM_CLOSED']
        rets = [(b, i, st) for b, i, st in sf.returns() if lit_name(P.ret_value(st)) == 'HTP_DATA']
        if not tests or not rets:
            continue
        nci += 1
        dom = C.dominators(sf)
        early = [st for b, i, st in rets if not any(t in dom[b] for t in tests)]
        res.check(not early, 'C07.i', name + ':close-test-first', 'the CLOSED test dominates all %d `return HTP_DATA`' % len(rets),
                  '%s can return HTP_DATA (wait for more bytes) before it has looked at out_status == CLOSED: on a close in the middle of the body the decompressor never gets its end-of-data call, buffered output is lost and the response never completes' % name, (early[0]['loc'] if early else sf.loc))
    res.floor('C07.i', 'response body states that handle closure', nci, 2)
    res.assumptions += ['zlib and the LZMA SDK write at most avail_out bytes into the output buffer', 'fidelity (decompressed bytes == payload) is not decided']
    from . import coupdate
    coupdate.run(db, res, 'C07.k', [('z_stream_s', 'next_out', 'avail_out', 4, 'the output window of zlib is reset as a (pointer, size) pair'), ('z_stream_s', 'avail_out', 'next_out', 4, 'the output window of zlib is reset as a (pointer, size) pair'),
                                     ('z_stream_s', 'next_in', 'avail_in', 3, 'the input window of zlib is set as a (pointer, size) pair'), ('z_stream_s', 'avail_in', 'next_in', 3, 'the input window of zlib is set as a (pointer, size) pair')],
                  'fields that change together: the zlib output pointer and the space left behind it are always reset in the same step (a lone reset lets inflate write through a stale pointer or report a wrong amount of output)')
    # ---- C07.l the time budget is measured from a clock that was started
    res.rule('C07.l', 'the decompression time budget is charged against a started clock: every call that hands body data to a decompressor chain (htp_gzip_decompressor_decompress from the body entry points) is dominated by a store of the current time into that decompressor\'s time_before, the field the decompressor callbacks charge elapsed time against')
    readers = [n for n, f in db.fn.items() if f.blocks and any(x.get('field') == 'time_before' for st in f.stmts() for x in nodes(st[2], lambda y: y.get('k') == 'member')) and any(c.get('callee') == 'htp_timer_track' for b_, i_, c in f.calls('htp_timer_track'))]
    res.floor('C07.l', 'callbacks that charge elapsed time against time_before', len(readers), 2)
    nl = 0
    for n, f in sorted(db.fn.items()):
        if not f.blocks or f.loc.startswith('htp/htp_decompressors.c'):
            continue
        dom = None
        for b, i, c in f.calls('htp_gzip_decompressor_decompress'):
            X = P.K(c['args'][0])
            nl += 1
            dom = dom or C.dominators(f)
            started = False
            for b2, i2, st2 in f.stmts():
                if not ((b2 in dom[b] and b2 != b) or (b2 == b and i2 < i)):
                    continue
                for c2 in nodes(st2, lambda y: y.get('k') == 'call' and y.get('callee') == 'gettimeofday'):
                    if P.K(c2['args'][0]) == '&%s->time_before' % X:
                        started = True
                for w in nodes(st2, lambda y: y.get('k') == 'assign'):
                    if P.K(w['l']) == '%s->time_before' % X:
                        started = True
            res.check(started, 'C07.l', '%s:decompress(%s)' % (n, X), 'time_before is set to the current time before the call',
                      '%s hands data to the decompressor %s without having stored the current time in its time_before: the callback charges `now - time_before` to the budget, i.e. the time since the zero-initialised value (1970), truncated to 32 bits - whether an honest body is cut off as a "compression bomb" depends on the wall clock' % (n, X), c['loc'])
    res.floor('C07.l', 'hand-overs of body data to a decompressor chain', nl, 2)
    # ---- C07.m the divisor of the bomb ratio test is current
    res.rule('C07.m', 'the compression-bomb ratio test divides by an up-to-date wire count: on each side the bytes handed to the decompressor have been added to {request,response}_message_len before the decompressor (whose callback compares the decompressed total with 2048 x that count) runs - inside the hand-over function in front of the decompress call, or in every caller in front of the hand-over')
    for side, fld in (('req', 'request_message_len'), ('res', 'response_message_len')):
        ex = db.get('htp_tx_%s_process_body_data_ex' % side)
        dom = C.dominators(ex)
        decs = ex.calls('htp_gzip_decompressor_decompress')
        res.floor('C07.m', 'decompress calls in htp_tx_%s_process_body_data_ex' % side, len(decs), 1)
        adds = [(b, i) for b, i, w in P.field_writes(ex, fld) if w.get('op') == '+=']
        inside = bool(adds) and all(any((ab in dom[b] and ab != b) or (ab == b and ai < i) for ab, ai in adds) for b, i, c in decs)
        if inside:
            res.holds('C07.m', '%s:counted-inside-before-decompression' % ex.name, '%s is advanced in %s in front of the decompress call' % (fld, ex.name), ex.loc)
            continue
        for f, b, i, c in db.callers(ex.name):
            if is_lit(c['args'][1], 0):
                continue                                   # end-of-body marker: no bytes
            n3 = P.K(c['args'][2])
            d2 = C.dominators(f)
            before = any(w.get('op') == '+=' and P.K(w['r']) == n3 and ((b2 in d2[b] and b2 != b) or (b2 == b and i2 < i)) for b2, i2, w in P.field_writes(f, fld))
            res.check(before, 'C07.m', '%s:counts-%s-before-hand-over' % (f.name, n3), '%s += %s precedes the hand-over' % (fld, n3),
                      '%s hands %s body bytes to %s before they are added to %s (or never adds them): while they are being decompressed the bomb test divides by a count that does not include them - 0 for the first piece of a body, so a request whose first piece inflates past the bomb limit is refused whatever its ratio, and the same body passes in smaller pieces' % (f.name, n3, ex.name, fld), c['loc'])
    # ---- C07.n decompressed output goes to the next layer when there is one
    res.rule('C07.n', 'layers are chained at every hand-over: wherever the decompress routine hands its output buffer to the data callback, it does so on the `no next layer` arm of a test of super.next (the sibling arm feeds the next decompressor); pass-through of the undecoded input is not a hand-over of output')
    f = db.get('htp_gzip_decompressor_decompress')
    nh = 0
    for b, i, st in f.stmts():
        for c in nodes(st, lambda y: y.get('k') == 'call' and y.get('callee') is None and P.member_field(y.get('fnexpr')) == 'callback'):
            a0 = strip(c['args'][0]) if c.get('args') else None
            v = strip(a0['e']) if a0 is not None and a0.get('k') == 'un' and a0.get('op') == '&' else None
            if v is None or v.get('k') != 'var':
                continue
            # what does this record carry?  the output buffer or the caller's input
            srcs = {P.K(w['r']) for b2, i2, s2 in f.stmts() for w in nodes(s2, lambda y: y.get('k') == 'assign' and y.get('op') == '=')
                    if (strip(w['l']) or {}).get('k') == 'member' and strip(w['l']).get('field') == 'data' and (strip(strip(w['l'])['base']) or {}).get('did') == v.get('did')}
            if not any(x.endswith('->buffer') for x in srcs):
                continue
            nh += 1
            # the block is an arm of `super.next != NULL [&& zlib_initialized]`: one of its entering edges leaves a test of super.next,
            # directly or through the second operand of the &&
            def tests(bb, what):
                cc = f.cond_of(bb)
                return bool(cc) and what in P.K(cc[0])
            nonext = any(tests(p_, 'super.next') or (tests(p_, 'zlib_initialized') and any(tests(q_, 'super.next') for q_ in f.preds.get(p_, []))) for p_ in f.preds.get(b, []))
            res.check(nonext, 'C07.n', '%s:output-hand-over@%s' % (f.name, v['name'] + '#' + str(nh)), 'on the `no next layer` arm',
                      'the output buffer is handed to the data callback without a test for a next layer: with two content codings the second decompressor never sees these bytes and they are delivered still compressed', c['loc'])
    res.floor('C07.n', 'hand-overs of the output buffer to the callback', nh, 3)
    c07o(db, res)
    c07p(db, res)
    c07q(db, res)
    c07r(db, res)
    c07s(db, res)
    c07t(db, res)
    return res


def explore_dead(f, state0, classes, gz):
    """Depth-first exploration of the decompress routine from its entry with the abstract store of an
    ended decompressor; branches whose condition is decided by the store are pruned. Returns the hand-out
    sites of the decompression buffer that are reachable, with the facts of one path each."""
    found = {}
    seen = set()

    def val(key, st):
        return st.get(key)

    def decide(a, st):
        """True / False / None for atom a under abstract store st"""
        l, op, r = a
        if l in st:
            lv = st[l]
            rv = None
            try:
                rv = int(r)
            except ValueError:
                rv = {'HTP_COMPRESSION_LZMA': 4, 'HTP_COMPRESSION_NONE': 1, 'GZIP_BUF_SIZE': gz}.get(r)
                if r == 'HTP_COMPRESSION_LZMA':
                    rv = 'nonzero'
            if rv == 'nonzero':
                if lv == 0:
                    return {'==': False, '!=': True}.get(op)
                return None
            if rv is None:
                return None
            return {'==': lv == rv, '!=': lv != rv, '<': lv < rv, '<=': lv <= rv, '>': lv > rv, '>=': lv >= rv}[op]
        if l == '(GZIP_BUF_SIZE - drec->stream.avail_out)' or l == 'dout.len':
            if 'drec->stream.avail_out' in st:
                lv = gz - st['drec->stream.avail_out']
                try:
                    rv = int(r)
                except ValueError:
                    return None
                return {'==': lv == rv, '!=': lv != rv, '<': lv < rv, '<=': lv <= rv, '>': lv > rv, '>=': lv >= rv}[op]
        if r == 'drec->stream.avail_out' and l == 'GZIP_BUF_SIZE' and 'drec->stream.avail_out' in st:
            lv, rv = gz, st['drec->stream.avail_out']
            return {'==': lv == rv, '!=': lv != rv, '<': lv < rv, '<=': lv <= rv, '>': lv > rv, '>=': lv >= rv}[op]
        return None

    def rec(b, i0, st, facts, depth):
        keyst = (b, i0, tuple(sorted(st.items())))
        if keyst in seen or depth > 400:
            return
        seen.add(keyst)
        blk = f.blocks[b]
        st = dict(st)
        for i in range(i0 + 1, len(blk['stmts'])):
            s = blk['stmts'][i]
            if (b, i) in classes:
                if classes[(b, i)] == 'decompressed':
                    # a hand-out of the buffer; data may have been replaced by NULL when len == 0 (end marker)
                    if not ('dout.len', '<=', '0') in facts:
                        found.setdefault((b, i), list(facts))
                return   # whatever the stage does next is its own responsibility
            if s.get('k') == 'return':
                return
            for c in nodes(s, lambda y: y.get('k') == 'call'):
                if c.get('callee') in ('htp_gzip_decompressor_restart', 'inflate', 'inflateInit2_', 'LzmaDec_DecodeToBuf'):
                    st.pop('drec->zlib_initialized', None)
                    st.pop('drec->stream.avail_out', None)
            for w in nodes(s, lambda y: y.get('k') == 'assign'):
                k = P.K(w['l'])
                if k in st or k in ('drec->zlib_initialized', 'drec->stream.avail_out'):
                    r = strip(w['r'])
                    if w['op'] == '=' and r.get('k') == 'lit':
                        st[k] = r['v']
                    else:
                        st.pop(k, None)
                if k == 'dout.len' and 'drec->stream.avail_out' in st and P.K(w['r']) == '(GZIP_BUF_SIZE - drec->stream.avail_out)':
                    st['dout.len'] = gz - st['drec->stream.avail_out']
        succs = blk['succs']
        two = len(succs) == 2 and blk['stmts'] and blk.get('term', {}).get('kind') != 'SwitchStmt' and blk.get('term', {}).get('cond') is not None
        for j, s_ in enumerate(succs):
            if s_ is None:
                continue
            nf = facts
            if two:
                a = P.canon(blk['stmts'][-1], j == 0)
                if a:
                    dcd = decide(a, st)
                    if dcd is False:
                        continue
                    nf = facts + [a]
            rec(s_, -1, st, nf, depth + 1)
    rec(f.entry, -1, state0, [], 0)
    return found


def c07o(db, res):
    """"No more decompression layers are applied than configured" includes zero: with the LZMA layer limit (or its memory limit)
    set to 0 no LZMA decoder is ever set up. The slow path of the Content-Encoding loop has its own limit test, but the
    single-coding fast path relies on the constructor - so the constructor's own test is the one that holds for every path."""
    res.rule('C07.o', 'an LZMA decoder is set up only when LZMA is enabled: every LzmaDec_Construct call is on the true edges of lzma_memlimit > 0 and response_lzma_layer_limit > 0')
    n = 0
    for name, f in sorted(db.fn.items()):
        if not f.blocks:
            continue
        if f.loc.startswith('htp/lzma/'):
            continue                                       # the SDK's own one-call interface (LzmaDecode) is not used by the library
        # LzmaDec_Construct is a macro of the SDK (two stores); a function of that name is accepted as well
        sites = [(b, i, c) for b, i, c in f.calls('LzmaDec_Construct')]
        seen_b = set()
        for b, i, st in f.stmts():
            if b not in seen_b and any(y.get('macro') == 'LzmaDec_Construct' for y in nodes(st, lambda y: y.get('k') == 'assign')):
                seen_b.add(b)
                sites.append((b, i, st))
        for b, i, c in sites:
            n += 1
            facts = [a for a, e in P.facts_at(f, b)]
            mem = any(a[0].endswith('lzma_memlimit') and ((a[1] == '>' and a[2] == '0') or (a[1] == '!=' and a[2] == '0')) for a in facts)
            lay = any(a[0].endswith('response_lzma_layer_limit') and ((a[1] == '>' and a[2] == '0') or (a[1] == '!=' and a[2] == '0')) for a in facts)
            missing = [w for w, ok in (('lzma_memlimit > 0', mem), ('response_lzma_layer_limit > 0', lay)) if not ok]
            res.check(not missing, 'C07.o', '%s:LzmaDec_Construct:enabled' % name, 'under both limits',
                      '%s sets up an LZMA decoder without testing %s: a response with Content-Encoding: lzma is decoded although the configuration allows no LZMA layer (the limit test of the Content-Encoding loop is only on its multi-token path)' % (name, ' and '.join(missing)), c['loc'])
    res.floor('C07.o', 'LZMA decoder set-ups', n, 1)


def c07p(db, res):
    """The Content-Encoding list is cut into tokens at any ONE of the separator characters (", "). The separators are a set of
    characters, compared one by one; handed to a string function they become a needle, "gzip,gzip" is a single token and one
    layer of the body is never undone."""
    res.rule('C07.p', 'the token scanner treats its separators as a set of characters: in get_token the separator parameter is only read character by character (dereference / subscript); it is never passed to a function')
    f = db.get('get_token')
    seps = [p['name'] for p in f.params if 'char' in p['t'] and 'const' in p['t'] and p['name'] not in ('in',)]
    seps = [p for p in seps if p != f.params[0]['name']]
    if not seps:
        raise AnalysisBroken('get_token has no separator parameter')
    sp = seps[0]
    reads = 0
    bad = None
    aliases = {sp}
    for b, i, st in f.stmts():
        for d in nodes(st, lambda y: y.get('k') == 'decl'):
            for v in d['vars']:
                if v.get('init') is not None and strip(v['init']).get('k') == 'var' and strip(v['init'])['name'] in aliases:
                    aliases.add(v['name'])
    for b, i, st in list(f.stmts()) + [(b_, -1, f.cond_of(b_)[0]) for b_ in f.blocks if f.cond_of(b_)]:
        for c in nodes(st, lambda y: y.get('k') == 'call'):
            if c.get('callee') in ('fprintf', 'fprint_raw_data'):
                continue
            for a in c.get('args') or []:
                if any(strip(v).get('name') in aliases for v in nodes(a, lambda y: y.get('k') == 'var')):
                    bad = c
        for u in nodes(st, lambda y: (y.get('k') == 'un' and y['op'] == '*') or y.get('k') == 'index'):
            tgt = strip(u['e']) if u.get('k') == 'un' else strip(u['base'])
            if tgt.get('k') == 'var' and tgt['name'] in aliases:
                reads += 1
    res.check(bad is None and reads > 0, 'C07.p', 'get_token:separators-are-a-set', '%s is read character by character at %d places and never handed to a function' % (sp, reads),
              'get_token hands its separator set `%s` to %s(): as a string it is matched as a whole, so a list written with a single separator character ("gzip,gzip") is one token and the second coding is never undone' % (sp, (bad or {}).get('callee')), (bad or {}).get('loc', f.loc))


def c07q(db, res):
    """When inflate rejects the stream the decompressor climbs a fixed ladder of retries (same coding with header probing, then
    the other coding) before it falls back to pass-through. Which rung comes next is decided by the decompressor's own state;
    the only reason to leave the ladder early is that zlib could not be initialised. A rung that is skipped because the
    payload "does not look like" a wrapped stream (a sniff of the first bytes) turns legal streams - zlib with a smaller
    window, say - into pass-through: the body arrives undecoded."""
    res.rule('C07.q', 'the retry ladder is not cut short by a look at the payload: in htp_gzip_decompressor_restart every path that gives up (return 0) while retries are left (restart < 3) passes the failure edge of an inflateInit2, or has tested nothing but the decompressor\'s own state')
    f = db.get('htp_gzip_decompressor_restart')
    params = [p['name'] for p in f.params]
    datap = [p['name'] for p in f.params if 'char' in p['t'] and '*' in p['t']]
    n = 0
    bad = None
    for b, i, st in f.returns() or []:
        rv = P.ret_value(st)
        if rv is None or not is_lit(rv, 0):
            continue
        for atoms, events, end, seq in P.enum_paths_seq(f, (f.entry, -1), stop=lambda bb, ii, s2, b=b, i=i: (bb, ii) == (b, i), max_paths=20000):
            if not (end[0] == 'return' and tuple(end[1:3]) == (b, i)):
                continue
            facts = [a for a, e in atoms]
            if not any(a[0].endswith('restart') and a[1] == '<' for a in facts):
                continue                                   # the ladder is used up
            n += 1
            initfail = any(a[0] == 'rc' and a[1] == '!=' for a in facts)
            sniff = [a for a in facts if any(re.search(r'\b%s\b' % re.escape(dp), a[0]) for dp in datap)]
            if not initfail and sniff:
                bad = (st, sniff[-1])
    res.check(bad is None and n > 0, 'C07.q', 'htp_gzip_decompressor_restart:gives-up-early', 'all %d give-up paths with retries left are zlib initialisation failures or the end of the ladder' % n,
              'htp_gzip_decompressor_restart gives up with retries left because of a test of the payload (%s): a stream that inflate would have accepted on the next rung is passed through undecoded' % (' '.join(bad[1]) if bad else ''), (bad[0] if bad else st).get('loc', f.loc))
    res.floor('C07.q', 'give-up paths of the retry ladder', n, 3)


def c07r(db, res):
    """get_token(in, in_len, seps, &tok, &tok_len) skips the separators in front of the token and hands back where the token
    starts. The caller's next scan has to start behind THAT token: an advance measured from where the previous scan started
    lands inside the token whenever more than one separator preceded it, the tail of the token is scanned as a coding of its
    own (an unknown one, which still counts as a layer) or the same coding is found twice - more layers than were announced."""
    res.rule('C07.r', 'each coding token is scanned once: in every loop that calls get_token(input, ..., &tok, &tok_len) the advance of the input cursor is computed from the token pointer the scanner returned, not from the position where the scan started')
    n = 0
    for name, f in sorted(db.fn.items()):
        if not f.blocks:
            continue
        sites = f.calls('get_token')
        if not sites:
            continue
        for b, i, c in sites:
            a0, a3 = strip(c['args'][0]), strip(c['args'][3])
            if a0.get('k') != 'var' or not (a3.get('k') == 'un' and a3['op'] == '&' and strip(a3['e']).get('k') == 'var'):
                continue
            inp, tok = a0['name'], strip(a3['e'])['name']
            adv = [(bb, w) for bb, ii, st in f.stmts() for w in nodes(st, lambda y: y.get('k') == 'assign' and strip(y['l']).get('k') == 'var' and strip(y['l'])['name'] == inp)
                   if any(bb in body and b in body for h, body in C.loops(f)) or True]
            adv = [(bb, w) for bb, w in adv if w['op'] in ('+=', '=') and not (w['op'] == '=' and bb not in {x for h, body in C.loops(f) if b in body or h == b for x in body})]
            for bb, w in adv:
                n += 1
                # directly, or through locals defined from it (`used = (tok - input) + tok_len + 1; input += used;`)
                defs = {}
                for b2, i2, s2 in f.stmts():
                    for d in nodes(s2, lambda y: y.get('k') == 'decl'):
                        for v in d['vars']:
                            if v.get('init') is not None:
                                defs.setdefault(v['name'], []).append(v['init'])
                    for a in nodes(s2, lambda y: y.get('k') == 'assign' and y['op'] == '=' and strip(y['l']).get('k') == 'var'):
                        defs.setdefault(strip(a['l'])['name'], []).append(a['r'])

                def mentions(e, depth=0):
                    for v in nodes(e, lambda y: y.get('k') == 'var'):
                        nm = strip(v).get('name')
                        if nm == tok:
                            return True
                        if depth < 3 and nm not in (inp,) and nm in defs and all(mentions(d_, depth + 1) for d_ in defs[nm]):
                            return True
                    return False
                uses_tok = mentions(w['r'])
                res.check(uses_tok, 'C07.r', '%s:%s-advance' % (name, inp), 'the cursor moves to the end of the token the scanner returned',
                          '%s advances `%s` by %s, measured from where the scan started, although get_token() skips leading separators and returns the token in `%s`: with two separator characters in front of a coding the next scan starts inside it ("gzip ,  deflate" also yields "te"; "deflate,        gzip" yields gzip twice - three layers for two codings)' % (name, inp, S(w['r']), tok), w['loc'])
    res.floor('C07.r', 'advances of a get_token input cursor', n, 1)


def c07s(db, res):
    """htp_gzip_decompressor_probe() tells the restart how many leading bytes of the chunk are gzip header and can be skipped.
    When the header (a file name, a comment) is not complete inside this chunk the probe cannot know where it ends: it has to
    answer 0 (skip nothing, let zlib read the header itself). Any other answer - the whole chunk, say - throws compressed
    payload or header bytes away, and the body is neither decoded nor passed through."""
    res.rule('C07.s', 'the gzip header probe claims nothing it has not seen: in htp_gzip_decompressor_probe every return of a computed skip count is on the false edge of <count> > <length of the data>, and the true edge returns 0')
    f = db.get('htp_gzip_decompressor_probe')
    lenp = f.params[1]['name']
    n = 0
    bad = None
    guard_seen = False
    retvars = {P.ret_value(st)['name'] for b_, i_, st in (f.returns() or []) if P.ret_value(st) is not None and P.ret_value(st).get('k') == 'var'}
    for atoms, events, end, seq in P.enum_paths_seq(f, (f.entry, -1), max_paths=20000):
        if end[0] != 'return':
            continue
        rv = P.ret_value(end[3])
        facts = [a for a, e in atoms]
        over = [a for a in facts if a[2] == lenp and a[1] in ('>', '>=') and a[0] in retvars]
        under = [a for a in facts if a[2] == lenp and a[1] in ('<=', '<') and a[0] in retvars]
        if over:
            guard_seen = True
            n += 1
            if rv is None or not is_lit(rv, 0):
                bad = ('over', end[3])
        elif rv is not None and rv.get('k') == 'var':
            n += 1
            if not any(a[0] == rv['name'] for a in under):
                bad = ('unguarded', end[3])
    res.check(bad is None and guard_seen, 'C07.s', 'htp_gzip_decompressor_probe:skip-count-within-data', 'a skip count beyond the data is answered with 0 on all %d paths' % n,
              'htp_gzip_decompressor_probe %s: when the gzip header is not complete inside the chunk (a file name cut by the chunk boundary) the caller skips bytes the probe never saw - the first chunk of the body is lost and the stream is neither decoded nor passed through' % ('returns a non-zero skip count on the path where the computed count exceeds the data' if bad and bad[0] == 'over' else 'returns a computed skip count that was never compared with the length of the data'), (bad[1] if bad else {}).get('loc', f.loc))
    res.floor('C07.s', 'return paths of the gzip header probe', n, 3)


LIMITS = {'INT32_MAX': 2**31 - 1, 'UINT32_MAX': 2**32 - 1, 'INT_MAX': 2**31 - 1, 'UINT_MAX': 2**32 - 1, 'INT64_MAX': 2**63 - 1, 'SIZE_MAX': 2**64 - 1, 'UINT16_MAX': 65535, 'INT16_MAX': 32767}


def c07t(db, res):
    """The bomb limit and the time limit are kept as 32-bit signed numbers but set from a size_t. The setters clamp: the narrowing
    store is reached only when the value is known to fit. A clamp against a larger constant lets a limit between 2 and 4 GiB
    wrap to a negative number - and a negative bomb limit is exceeded by the first byte."""
    res.rule('C07.t', 'configured limits are clamped before they are narrowed: in the configuration setters every store of a wider parameter into a narrower integer field is on an edge where the parameter is known to be at most the largest value of the field\'s type')
    WIDTH = {'unsigned long': 64, 'long': 64, 'unsigned int': 32, 'int': 32, 'unsigned short': 16, 'short': 16}
    n = 0
    for name, f in sorted(db.fn.items()):
        if not f.blocks or not name.startswith('htp_config_set_'):
            continue
        params = {p['name']: p['t'] for p in f.params}
        for b, i, st in f.stmts():
            for a in nodes(st, lambda y: y.get('k') == 'assign' and y['op'] == '=' and strip(y['l']).get('k') == 'member'):
                r = strip(a['r'])
                extra = []
                if r is not None and r.get('k') == 'cond':
                    # field = (p > K) ? K' : p  - the arm that stores the parameter is taken under the (negated) condition
                    for arm, pol in ((r.get('a'), True), (r.get('b'), False)):
                        av = strip(arm) if arm is not None else None
                        if av is not None and av.get('k') == 'var' and av['name'] in params:
                            at = P.canon(r.get('c') or r.get('cond') or {}, pol) if (r.get('c') or r.get('cond')) else None
                            if at:
                                extra.append(at)
                            r = av
                            break
                if r is None or r.get('k') != 'var' or r['name'] not in params:
                    continue
                lt, rt = a.get('t'), r.get('t')
                if lt not in WIDTH or rt not in WIDTH or WIDTH[rt] <= WIDTH[lt]:
                    continue
                if lt == 'unsigned char' or WIDTH[lt] < 32:
                    continue
                n += 1
                top = 2 ** (WIDTH[lt] - (0 if lt.startswith('unsigned') else 1)) - 1
                best = None
                for (l, op, rr), e in list(P.facts_at(f, b)) + [(x_, None) for x_ in extra]:
                    if l != r['name'] or op not in ('<=', '<'):
                        continue
                    try:
                        kv = LIMITS[rr] if rr in LIMITS else int(rr, 0)
                    except ValueError:
                        continue
                    kv = kv if op == '<=' else kv - 1
                    best = kv if best is None else min(best, kv)
                res.check(best is not None and best <= top, 'C07.t', '%s:%s' % (name, strip(a['l'])['field']), 'clamped to the range of the field',
                          '%s stores its %s parameter `%s` into the %s field %s under the bound %s, which does not fit the field (largest value %d): a configured limit above that wraps to a negative number and is exceeded at once' % (name, rt, r['name'], lt, strip(a['l'])['field'], best, top), a['loc'])
    res.floor('C07.t', 'narrowing stores in configuration setters', n, 2)
