"""C08 — work linear in stream length (DESIGN.md §4.8). Timing is not a static quantity; what is decided
is that every cap the code relies on for linearity is in force, and that no helper that scans a growing
span / container is run once per byte or per line without a cap."""
from ..facts import load, S, strip, nodes, is_lit, lit_name, AnalysisBroken
from ..report import Result
from .. import cfg as C
from .. import pat as P
from . import c10

TECHNIQUE = 'cap-dominates-growth rules (shared with C10), loop-nesting rule: a callee that loops over the unconsumed span or over a per-transaction container, reached from a per-byte / per-line loop, needs a dominating cap'


def has_loop(fn):
    return bool(C.loops(fn))


def run(repo='/repo', tier='quick'):
    res = Result('C08')
    db = load(repo)
    res.rule('C08.a', 'the caps that make line assembly linear are in force on all paths: hard field limit before buffer growth, folded-header cap, repetition cap (evaluated by the C10 rules)')
    res.rule('C08.b', 'the HTTP/0.9 junk probe loop runs only when at most HTTP09_MAX_JUNK_LEN bytes remain')
    res.rule('C08.c', 'an empty chunk-length line is consumed before continuing (no rescan of the same bytes)')
    res.rule('C08.d', 'the NUL-skipping substring search skips a leading NUL before entering its inner loop')
    res.rule('C08.e', 'no helper that loops over the unconsumed span of the chunk is called once per byte without an upper cap on that span')
    res.rule('C08.f', 'linear container scans on the per-header-line path are capped by a limit on the container size')
    # ---- C08.a
    r10 = c10.run(repo, tier)
    for o in r10.obs:
        if o['rule'] in ('C10.a', 'C10.b', 'C10.c') and any(k in o['key'] for k in ('limit-before-growth', 'newlen-definition', 'folded-cap', 'repetition-cap', 'over-limit-is-error')):
            res.add('C08.a', o['key'], o['status'], o['msg'], o['loc'])
    # ---- C08.b
    f = db.get('htp_connp_REQ_PROTOCOL')
    off, ln = 'connp->in_current_read_offset', 'connp->in_current_len'
    probe_loops = []
    for h, body in C.loops(f):
        c = f.cond_of(h)
        if c and (P.canon(c[0]) or ('', '', ''))[2] == ln:
            probe_loops.append((h, body))
    if not probe_loops:
        res.info('C08.b', 'REQ_PROTOCOL:no-probe-loop', 'no probe loop over the rest of the chunk', f.loc)
    for h, body in probe_loops:
        ok = any(a[0] == ln and a[1] == '<=' and 'HTTP09_MAX_JUNK_LEN' in a[2] and off in a[2] for a, e in P.facts_at(f, h))
        res.check(ok, 'C08.b', 'htp_connp_REQ_PROTOCOL:junk-cap', 'the probe loop is on the false edge of len > read_offset + HTTP09_MAX_JUNK_LEN',
                  'the HTTP/0.9 probe loop scans the rest of the chunk without the HTTP09_MAX_JUNK_LEN cap (every 0.9-looking request line rescans the chunk)', f.blocks[h]['stmts'][-1]['loc'])
    # ---- C08.c
    f = db.get('htp_connp_RES_BODY_CHUNKED_LENGTH')
    found = False
    for b in f.blocks:
        facts = [a for a, e in P.facts_at(f, b)]
        if any(a[0].endswith('out_chunked_length') and a[1] == '==' and a[2] == '-1004' for a in facts):
            found = True
            w = [x for st in f.blocks[b]['stmts'] for x in P.assigns_field(st, 'out_current_consume_offset', '=')]
            ok = any(P.K(x['r']) == 'connp->out_current_read_offset' for x in w)
            # or through a helper whose every path makes the same assignment (htp_connp_res_clear_buffer)
            for st in f.blocks[b]['stmts']:
                for c2 in nodes(st, lambda y: y.get('k') == 'call'):
                    g = db.fn.get(c2.get('callee') or '')
                    if g is not None and g.blocks:
                        ws = [(bb, x) for bb, ii, x in P.field_writes(g, 'out_current_consume_offset') if x.get('op') == '=' and P.K(x['r']) == 'connp->out_current_read_offset']
                        if ws and any(all(bb in C.dominators(g).get(p_, ()) for p_ in g.preds.get(g.exit, [g.exit])) for bb, x in ws):
                            ok = True
            res.check(ok, 'C08.c', f.name + ':empty-line-consumed', 'consume_offset = read_offset before continuing',
                      'an empty chunk-length line is not consumed before the loop continues: the next iteration re-parses the same bytes plus one', f.blocks[b]['stmts'][0]['loc'] if f.blocks[b]['stmts'] else f.loc)
    if not found:
        res.info('C08.c', f.name + ':no-empty-line-arm', 'no special arm for the empty chunk-length line', f.loc)
    # ---- C08.d
    f = db.get('bstr_util_mem_index_of_mem_nocasenorzero')
    lps = sorted(C.loops(f), key=lambda x: -len(x[1]))
    ok = False
    if len(lps) >= 2:
        inner_h = lps[-1][0]
        ok = any(a[0].startswith('data1[') and a[1] == '!=' and a[2] == '0' for a, e in P.facts_at(f, inner_h))
    res.check(ok, 'C08.d', f.name + ':nul-skip', 'the inner loop is entered only for data1[i] != 0', 'the NUL skip before the inner loop is gone: a run of NULs makes the search quadratic', f.loc)

    # ---- C08.e per-byte rescans
    nsf = 0
    for d in ('in', 'out'):
        span_fields = ('%s_current_consume_offset' % d, '%s_current_read_offset' % d)
        for name in P.state_functions(db, d):
            sf = db.get(name)
            for h, body in C.loops(sf):
                perbyte = any(w.get('op', '').startswith('++') for b in body for st in sf.blocks[b]['stmts'] for w in P.assigns_field(st, '%s_current_read_offset' % d))
                if not perbyte:
                    continue
                nsf += 1
                for b in body:
                    for st in sf.blocks[b]['stmts']:
                        for c in nodes(st, lambda y: y.get('k') == 'call' and y.get('callee') in db.fn):
                            g = db.fn[c['callee']]
                            if not has_loop(g):
                                continue
                            uses_span = all(any(P.member_field(x) == fl for bb, ii, s2 in g.stmts() for x in nodes(s2, lambda y: y.get('k') == 'member')) for fl in span_fields)
                            if not uses_span:
                                continue
                            facts = [a for a, e in P.facts_at(sf, b)]
                            per_line = ('connp->%s_next_byte' % d, '==', 'LF') in facts
                            capped = any(('consume_offset' in a[0] and a[1] in ('<', '<=')) for a in facts)
                            # the key says for which bytes the rescan runs, so a recorded finding cannot hide a worse variant at the same site
                            skipped = any('is_chunked_ctl_char(' in a[0] and a[1] == '==' and a[2] == '0' for a in facts)
                            key = '%s:per-byte-call:%s:%s' % (name, g.name, 'for-non-control-bytes' if skipped else 'for-every-byte')
                            if per_line or capped:
                                res.holds('C08.e', key, 'called once per line / under a span cap', c['loc'])
                            else:
                                res.violated('C08.e', key, '%s loops over the unconsumed span (read_offset - consume_offset) and is called from the per-byte loop of %s for every non-control byte with no upper cap on the span: a line of k control bytes followed by k hex digits in one chunk costs O(k^2)' % (g.name, name), c['loc'])
    res.floor('C08.e', 'per-byte loops in state functions', nsf, 6)

    # ---- C08.f container scans on the per-line path
    for side, d in (('request', 'in'), ('response', 'out')):
        pf = db.get('htp_process_%s_header_generic' % side)
        tbl = 'connp->%s_tx->%s_headers' % (d, side)
        for b, i, c in pf.calls():
            if c.get('callee') in ('htp_table_get', 'htp_table_get_c', 'htp_table_get_mem') and P.K(c['args'][0]) == tbl:
                # is the size of this table capped anywhere before an add?
                capped = False
                for ff in db.fn.values():
                    for bb, ii, cc in ff.calls():
                        if cc.get('callee') in ('htp_table_add', 'htp_table_addn', 'htp_table_addk') and P.K(cc['args'][0]).endswith('%s_headers' % side):
                            if any(('htp_table_size' in a[0] or '_headers' in a[0] and 'size' in a[0]) and a[1] in ('<', '<=') for a, e in P.facts_at(ff, bb)):
                                capped = True
                key = '%s:scan:%s' % (pf.name, c['callee'])
                res.check(capped, 'C08.f', key, 'the header table size is capped before every add',
                          '%s scans the whole %s header table (linear %s) once per header line and nothing caps the number of distinct headers: k distinct names cost O(k^2)' % (pf.name, side, c['callee']), c['loc'])
    res.assumptions.append('an O(n) bound for all inputs is not decided; only that each cap the bound relies on is present on all paths')
    # ---------------- C08.g the Content-Encoding token loop is bounded by the layer limit in every iteration
    res.rule('C08.g', 'the Content-Encoding token loop passes the layer-limit test in every iteration (not only when a token adds a decompressor): each pass re-skips the separators in front of the current token, so an unbounded number of passes over a long separator run is quadratic')
    hf = db.get('htp_tx_state_response_headers')
    lims = [b for b in hf.blocks if hf.cond_of(b) and 'response_decompression_layer_limit' in S(hf.cond_of(b)[0]) and (P.canon(hf.cond_of(b)[0]) or ('', '==', ''))[1] not in ('==', '!=')]
    lps = [(h, body) for h, body in C.loops(hf) if any(b in body for b in lims)]
    if not lims or not lps:
        raise AnalysisBroken('C08.g: the layer-limit test inside a loop of htp_tx_state_response_headers was not found')
    h, body = max(lps, key=lambda hb: len(hb[1]))
    # forward must-analysis inside the body: "the limit test has been evaluated since the loop head"
    # (the `limit != 0 &&` operand in front of it short-circuits: with limit == 0 the loop is unbounded by design)
    zero = [b for b in hf.blocks if hf.cond_of(b) and P.canon(hf.cond_of(b)[0]) and P.canon(hf.cond_of(b)[0])[0].endswith('response_decompression_layer_limit') and P.canon(hf.cond_of(b)[0])[1] in ('==', '!=')]
    entry = [s_ for s_ in hf.blocks[h]['succs'] if s_ in body][0] if hf.cond_of(h) else h
    IN = {entry: False}
    work = [entry]
    backs = []
    while work:
        b = work.pop()
        v = IN[b] or b in lims or b in zero
        for s_ in hf.blocks[b]['succs']:
            if s_ is None:
                continue
            if s_ == h:
                backs.append((b, v))
                continue
            if s_ not in body:
                continue
            nv = v if s_ not in IN else (IN[s_] and v)
            if s_ not in IN or nv != IN[s_]:
                IN[s_] = nv
                work.append(s_)
    if h in lims or h in zero:
        backs = [(b, True) for b, v in backs]
    badb = [b for b, v in backs if not v]
    res.check(not badb and bool(backs), 'C08.g', 'htp_tx_state_response_headers:token-loop:limit-every-iteration', 'every way back to the loop head has passed the layer-limit test',
              'a token that adds no decompressor goes round the Content-Encoding loop without passing the layer-limit test: the number of passes is no longer bounded by the limit, and each pass re-scans the separators in front of the current token', hf.blocks[lims[0]]['stmts'][-1]['loc'])
    c08h(db, res)
    c08c2(db, res)
    return res


SCANNERS = ('memchr', 'bstr_util_mem_index_of_c', 'bstr_util_mem_index_of_c_nocase', 'bstr_util_mem_index_of_mem', 'bstr_util_mem_index_of_mem_nocase',
            'bstr_util_mem_index_of_mem_nocasenorzero', 'bstr_util_mem_index_of_c_nocasenorzero', 'bstr_chr', 'bstr_index_of_c', 'strchr', 'strstr')


def c08h(db, res):
    """A loop that walks a buffer item by item (cookies, tokens, parameters) may search ahead - but then the cursor has to jump to
    what the search found. A search over "the rest of the buffer" whose result does not move the cursor is repeated over the
    same bytes for the next item: k items cost k^2/2 byte comparisons."""
    res.rule('C08.h', 'a search over the rest of the buffer moves the cursor: inside every loop with a cursor c, a call of a scanning function over (data + c, len - c) has its result assigned (directly or through a local) to c in that loop - otherwise the remainder is searched again for every item')
    n = 0
    for name, f in sorted(db.fn.items()):
        if not f.blocks or f.loc.startswith('htp/lzma/'):
            continue
        for h, body in C.loops(f):
            stepped = {strip(w['l'])['name'] for bb in body for st in f.blocks[bb]['stmts'] for w in nodes(st, lambda y: y.get('k') == 'assign' and strip(y['l']).get('k') == 'var')}
            stepped |= {strip(u['e'])['name'] for bb in body for st in f.blocks[bb]['stmts'] for u in nodes(st, lambda y: y.get('k') == 'un' and y['op'] in ('++', '++post') and strip(y['e']).get('k') == 'var')}
            for bb in sorted(body):
                for st in f.blocks[bb]['stmts']:
                    holders = []
                    for d in nodes(st, lambda y: y.get('k') == 'decl'):
                        holders += [(v['name'], strip(v['init'])) for v in d['vars'] if v.get('init') is not None]
                    for a in nodes(st, lambda y: y.get('k') == 'assign' and y['op'] == '=' and strip(y['l']).get('k') == 'var'):
                        holders.append((strip(a['l'])['name'], strip(a['r'])))
                    for R, e in holders:
                        if e is None or e.get('k') != 'call' or e.get('callee') not in SCANNERS or len(e.get('args') or []) < 2:
                            continue
                        win = strip(e['args'][2]) if e.get('callee') == 'memchr' and len(e['args']) > 2 else strip(e['args'][1])
                        if win is None or win.get('k') != 'bin' or win['op'] != '-':
                            continue
                        cur = strip(win['r'])
                        if cur.get('k') != 'var' or cur['name'] not in stepped:
                            continue
                        c = cur['name']
                        n += 1
                        # does the cursor take the result?
                        def derived(name_, depth=0):
                            for b2 in body:
                                for s2 in f.blocks[b2]['stmts']:
                                    for w in nodes(s2, lambda y: y.get('k') == 'assign' and strip(y['l']).get('k') == 'var'):
                                        tgt = strip(w['l'])['name']
                                        if any(strip(v).get('name') == name_ for v in nodes(w['r'], lambda y: y.get('k') == 'var')):
                                            if tgt == c or (depth < 2 and tgt != name_ and derived(tgt, depth + 1)):
                                                return True
                            return False
                        res.check(derived(R), 'C08.h', '%s:%s=%s(...%s...)' % (name, R, e.get('callee'), P.K(win)), 'the cursor jumps to what the search found',
                                  '%s searches the rest of the buffer (%s bytes from the cursor) with %s() inside its item loop, but the cursor `%s` never takes the result `%s`: the same remainder is searched again for the next item - k items cost O(k^2)' % (name, P.K(win), e.get('callee'), c, R), e.get('loc', f.loc))
    res.analysed['C08.h: searches over the rest of a buffer inside an item loop'] = n
    if n == 0:
        res.holds('C08.h', 'no-search-over-the-rest-in-item-loops', 'no item loop searches the rest of its buffer (the self-test variant c08h-* is the positive control)', '')


def c08c2(db, res):
    """C08.c for both directions: a chunk-length state that has looked at a consolidated line (htp_parse_chunked_length) and goes
    round its loop again has consumed that line - cleared the line buffer, or moved the consumer position - so that the next
    line does not start with the same bytes."""
    for d, sd, name in (('in', 'req', 'htp_connp_REQ_BODY_CHUNKED_LENGTH'), ('out', 'res', 'htp_connp_RES_BODY_CHUNKED_LENGTH')):
        f = db.get(name)
        clear = 'htp_connp_%s_clear_buffer' % sd
        for b, i, c in f.calls('htp_parse_chunked_length'):
            heads = {h for h, body in C.loops(f) if b in body}
            bad = None
            k = 0
            for atoms, events, end, seq in P.enum_paths_seq(f, (b, i), max_paths=20000):
                if end[0] != 'loop' or end[1] not in heads:
                    continue
                k += 1
                consumed = any(x[0] == 'stmt' and (any(c2.get('callee') == clear for c2 in nodes(x[3], lambda y: y.get('k') == 'call')) or P.assigns_field(x[3], '%s_current_consume_offset' % d)) for x in seq)
                if not consumed:
                    bad = [x for x in seq if x[0] == 'stmt'][-1][3] if [x for x in seq if x[0] == 'stmt'] else c
            if k:
                res.check(bad is None, 'C08.c', name + ':parsed-line-consumed-before-next-line', 'every way round the loop after the line was parsed consumes it',
                          '%s parses a chunk-length line and goes round its loop without consuming it: the next line is consolidated together with the old one, a run of k such lines is re-scanned k times' % name, (bad or c).get('loc', f.loc))
