"""A3 (difference-bound guard analysis): abstract interpretation of one function over the zone domain
(difference-bound matrices): constraints x - y <= c over simple integer terms (locals, parameters, members, *param,
and the constant 0), kept closed incrementally; assignments x := y + c are exact, other writes forget the term;
branch conditions are assumed on their edges (an unsatisfiable state prunes the edge); join = pointwise max,
widening after a few visits, then two narrowing passes.  Unsigned `y - c` without a known y >= c forgets the
target and marks it may-have-wrapped.  Rules read the result as facts "v + k < L"."""
import re
from .facts import S, strip, nodes, walk, is_lit
from . import pat as P
from . import cfg as C

INF = 10 ** 6


def term(e):
    """(key, const) for `key + const` shaped integer expressions; key '0' for pure constants; None otherwise"""
    e = strip(e)
    if e is None:
        return None
    k = e.get('k')
    if k == 'lit':
        return ('0', e['v'])
    if k in ('var',):
        return (e['name'], 0)
    if k == 'member':
        return (P.K(e), 0)
    if k == 'un' and e['op'] == '*' and strip(e['e']).get('k') == 'var':
        return ('*' + strip(e['e'])['name'], 0)
    if k == 'un' and e['op'] in ('++post', '--post'):
        return term(e['e'])
    if k == 'un' and e['op'] in ('++', '--'):
        t = term(e['e'])
        return (t[0], t[1] + (1 if e['op'] == '++' else -1)) if t else None
    if k == 'bin' and e['op'] in ('+', '-'):
        l, r = term(e['l']), term(e['r'])
        if l and r and r[0] == '0':
            return (l[0], l[1] + (r[1] if e['op'] == '+' else -r[1]))
        if l and r and l[0] == '0' and e['op'] == '+':
            return (r[0], r[1] + l[1])
    return None


class Facts:
    """zone (DBM): b[(x, y)] = c  means  x - y <= c; closed under shortest paths; None state = unreachable"""

    def __init__(self, o=None):
        self.b = dict(o.b) if o is not None else {}
        self.wrap = set(o.wrap) if o is not None else set()
        self.bottom = o.bottom if o is not None else False

    # ---- read interface used by the rules: (v, L) -> k  meaning  v + k < L
    def get(self, p, default=None):
        if p[1] == '#wrap':
            return 0 if p[0] in self.wrap else default
        if p[0] == p[1]:
            return -1
        c = self.b.get(p)
        return default if c is None else -c - 1

    def __contains__(self, p):
        return (p[0] in self.wrap) if p[1] == '#wrap' else (p in self.b)

    def __eq__(self, o):
        return o is not None and self.bottom == o.bottom and self.b == o.b and self.wrap == o.wrap

    def vars(self):
        vs = {'0'}
        for x, y in self.b:
            vs.add(x)
            vs.add(y)
        return vs

    def add(self, x, y, c):
        """x - y <= c, with incremental closure"""
        if self.bottom:
            return
        if x == y:
            if c < 0:
                self.bottom = True
            return
        b = self.b
        if c >= b.get((x, y), INF):
            return
        if b.get((y, x), INF) + c < 0:
            self.bottom = True
            return
        vs = self.vars() | {x, y}
        ins = [(i, 0 if i == x else b.get((i, x), INF)) for i in vs]
        outs = [(j, 0 if j == y else b.get((y, j), INF)) for j in vs]
        ins = [(i, d) for i, d in ins if d < INF]
        outs = [(j, d) for j, d in outs if d < INF]
        for i, di in ins:
            for j, dj in outs:
                n = di + c + dj
                if i == j:
                    if n < 0:
                        self.bottom = True
                        return
                    continue
                if n < b.get((i, j), INF):
                    b[(i, j)] = n

    def forget(self, t):
        pre = t + '->'
        for p in [p for p in self.b if p[0] == t or p[1] == t or p[0].startswith(pre) or p[1].startswith(pre) or p[0] == '*' + t or p[1] == '*' + t]:
            del self.b[p]
        self.wrap.discard(t)

    kill = forget

    def shift(self, t, c):
        """t := t + c"""
        for p in list(self.b):
            if p[0] == t:
                self.b[p] += c
            elif p[1] == t:
                self.b[p] -= c

    def lower(self, t):
        """greatest known constant lower bound of t (0 - t <= c  =>  t >= -c), or None"""
        c = self.b.get(('0', t))
        return None if c is None else -c

    def join(self, o):
        if self.bottom:
            return Facts(o)
        if o.bottom:
            return Facts(self)
        r = Facts()
        r.b = {p: max(c, o.b[p]) for p, c in self.b.items() if p in o.b}
        r.wrap = self.wrap | o.wrap
        return r

    def widen(self, new):
        """self = old state; keep only the constraints of old that new does not weaken"""
        if self.bottom:
            return Facts(new)
        if new.bottom:
            return Facts(self)
        r = Facts()
        for p, c in self.b.items():
            n = new.b.get(p)
            if n is None:
                continue
            if n <= c:
                r.b[p] = c
            else:
                # widening with thresholds: the off-by-one neighbourhood is where the loop invariants of scanners live
                t = [t for t in THRESHOLDS if t >= n]
                if t:
                    r.b[p] = t[0]
        r.wrap = self.wrap | new.wrap
        return r

    def items(self):
        return [((x, y), -c - 1) for (x, y), c in self.b.items()]


def _uns(e):
    e = strip(e)
    return e is not None and 'unsigned' in (e.get('t') or '')


def assume(fs, cond, pol, uns=()):
    a = strip(cond)
    if a is None or fs.bottom:
        return
    if a.get('k') == 'un' and a['op'] == '!':
        return assume(fs, a['e'], not pol, uns)
    if a.get('k') == 'bin' and a['op'] in ('<', '<=', '>', '>=', '==', '!='):
        op = a['op'] if pol else P.NEG[a['op']]
        l, r = term(a['l']), term(a['r'])
        if l and r:
            (x, kx), (y, ky) = l, r                 # x + kx op y + ky
            d = ky - kx                              # x - y op d
            # an upper bound that holds now is a fact about the current value, whatever its history: clears may-have-wrapped
            if op == '<':
                fs.add(x, y, d - 1)
                fs.wrap.discard(x)
            elif op == '<=':
                fs.add(x, y, d)
                fs.wrap.discard(x)
            elif op == '>':
                fs.add(y, x, -d - 1)
                fs.wrap.discard(y)
            elif op == '>=':
                fs.add(y, x, -d)
                fs.wrap.discard(y)
            elif op == '==':
                fs.add(x, y, d)
                fs.add(y, x, -d)
                fs.wrap.discard(x)
                fs.wrap.discard(y)
            elif op == '!=':
                if fs.b.get((x, y)) == d:
                    fs.add(x, y, d - 1)
                if fs.b.get((y, x)) == -d:
                    fs.add(y, x, -d - 1)
            return
        # (x + kx) - (y + ky)  op  c
        for lhs, rhs, o in ((a['l'], a['r'], op), (a['r'], a['l'], {'<': '>', '<=': '>=', '>': '<', '>=': '<=', '==': '==', '!=': '!='}[op])):
            L, R = strip(lhs), term(rhs)
            if L is None or L.get('k') != 'bin' or L['op'] != '-' or not R or R[0] != '0':
                continue
            tx, ty = term(L['l']), term(L['r'])
            if not tx or not ty:
                continue
            (x, kx), (y, ky), c = tx, ty, R[1]
            unsigned = _uns(L)
            # value u = x - y + (kx - ky)
            if o in ('<', '<=', '=='):
                hi = c - 1 if o == '<' else c
                fs.add(x, y, hi - (kx - ky))
                if unsigned:
                    fs.add(y, x, kx - ky)            # a small unsigned difference cannot be a wrapped one
                if o == '==':
                    fs.add(y, x, (kx - ky) - c)
            elif o in ('>', '>='):
                lo = c + 1 if o == '>' else c
                if not unsigned or fs.b.get((y, x), INF) <= kx - ky:
                    fs.add(y, x, (kx - ky) - lo)
            return
    elif a.get('k') in ('var', 'member') or (a.get('k') == 'un' and a['op'] == '*'):
        t = term(a)
        if t and t[1] == 0:
            if pol and (t[0] in uns or _uns(a)):
                fs.add('0', t[0], -1)              # truthy unsigned: t >= 1
            elif not pol:
                fs.add(t[0], '0', 0)
                fs.add('0', t[0], 0)


PURE = ('htp_is_', 'isxdigit', 'isdigit', 'tolower', 'toupper', 'isspace', 'isalnum', 'isalpha', 'x2c', 'bstr_util_mem_index_of', 'memchr', 'memcmp', 'strlen')


_DB = [None]          # fact base of the function being analysed (set by solve); None = no interprocedural effects known


def field_effects(db, callee):
    """record fields that a call to `callee` may store to, transitively (None = anything: unknown callee kind or indirect call)"""
    if callee is None:
        return None
    cache = db.__dict__.setdefault('_field_effects', {})
    if not cache:
        direct, calls = {}, {}
        for n, f in db.fn.items():
            w, cs, unknown = set(), set(), False
            for b, i, st in f.stmts():
                for y in nodes(st):
                    if y['k'] == 'assign' or (y['k'] == 'un' and y['op'] in ('++', '--', '++post', '--post')):
                        l = strip(y.get('l') if y['k'] == 'assign' else y['e'])
                        while l is not None and l.get('k') in ('index',):
                            l = strip(l['base'])
                        if l is not None and l.get('k') == 'member':
                            w.add(l['field'])
                        elif l is not None and l.get('k') == 'un' and l['op'] == '*':
                            w.add('*')
                    elif y['k'] == 'call':
                        if y.get('callee'):
                            cs.add(y['callee'])
                        else:
                            unknown = True
            direct[n] = None if unknown else w
            calls[n] = cs
        ch = True
        eff = dict(direct)
        while ch:
            ch = False
            for n in eff:
                if eff[n] is None:
                    continue
                for c in calls[n]:
                    if c in eff:
                        if eff[c] is None:
                            eff[n] = None
                            ch = True
                            break
                        if not eff[c] <= eff[n]:
                            eff[n] = eff[n] | eff[c]
                            ch = True
        cache.update(eff)
        cache['#done'] = True
    if callee in cache:
        return cache[callee]
    return set()          # external (libc, zlib): stores only through its pointer arguments, handled by the caller


def _assign(fs, t, tnode, rt, uns):
    """t := rt  (rt = (key, const) or None)"""
    unsigned = t in uns or _uns(tnode)
    if rt and rt[0] == t:
        c = rt[1]
        if c < 0 and unsigned and (fs.lower(t) is None or fs.lower(t) < -c):
            fs.forget(t)
            fs.wrap.add(t)
        else:
            fs.shift(t, c)
        return
    wrapped = rt and rt[0] in fs.wrap
    if rt and rt[0] != '0' and rt[1] < 0 and unsigned and (fs.lower(rt[0]) is None or fs.lower(rt[0]) < -rt[1]):
        fs.forget(t)
        fs.wrap.add(t)
        return
    fs.forget(t)
    if rt:
        fs.add(t, rt[0], rt[1])
        fs.add(rt[0], t, -rt[1])
        if wrapped:
            fs.wrap.add(t)


def transfer(fs, st, on_index=None, uns=()):
    """apply the effects of one root statement; on_index(node, facts) is called for every subscript before effects"""
    if on_index:
        for x in nodes(st, lambda y: y.get('k') == 'index'):
            on_index(x, fs)
    if fs.bottom:
        return
    for x in nodes(st):
        k = x['k']
        if k == 'assign':
            lt = term(x['l'])
            if not lt or lt[1] != 0:
                continue
            t = lt[0]
            if x['op'] == '=':
                _assign(fs, t, x['l'], term(x['r']), uns)
            elif x['op'] in ('+=', '-='):
                rt = term(x['r'])
                if rt and rt[0] == '0':
                    _assign(fs, t, x['l'], (t, rt[1] if x['op'] == '+=' else -rt[1]), uns)
                else:
                    fs.forget(t)
            else:
                fs.forget(t)
        elif k == 'un' and x['op'] in ('++', '++post', '--', '--post'):
            lt = term(x['e'])
            if lt and lt[1] == 0:
                _assign(fs, lt[0], x['e'], (lt[0], 1 if '+' in x['op'] else -1), uns)
        elif k == 'call':
            for a in x['args']:
                a = strip(a)
                if a is not None and a.get('k') == 'un' and a['op'] == '&':
                    t = term(a['e'])
                    if t:
                        fs.forget(t[0])
            if not (x.get('callee') or '').startswith(PURE):
                # a call may write what is reachable through pointers: with the fact base at hand, only the record fields the
                # callee (transitively) stores to, plus whatever hangs off a pointer argument of an external function
                wf = field_effects(_DB[0], x.get('callee')) if _DB[0] is not None else None
                roots = set()
                if wf is not None and x.get('callee') not in _DB[0].fn:
                    for a in x['args']:
                        a0 = strip(a)
                        while a0 is not None and a0.get('k') in ('member', 'index', 'bin', 'un', 'cast'):
                            a0 = strip(a0.get('base') or a0.get('l') or a0.get('e'))
                        if a0 is not None and a0.get('k') == 'var' and '*' in (strip(a) or {}).get('t', '*') and 'const ' not in (strip(a) or {}).get('t', ''):
                            roots.add(a0['name'])

                def hit(t):
                    if not ('->' in t or t.startswith('*') or '.' in t):
                        return False
                    if wf is None:
                        return True
                    fld = re.split(r'->|\.', t)[-1].rstrip(')')
                    return fld in wf or t.startswith('*') or re.split(r'->|\.|\[', t.lstrip('(*'))[0] in roots
                for p in [p for p in fs.b if hit(p[0]) or hit(p[1])]:
                    del fs.b[p]
        elif k == 'decl':
            for v in x['vars']:
                fs.forget(v['name'])
                if 'init' in v:
                    _assign(fs, v['name'], {'t': v['t']}, term(v['init']), uns)


def unsigned_terms(fn):
    out = set()
    for p in fn.params:
        if 'unsigned' in p['t'] and '*' not in p['t']:
            out.add(p['name'])
        elif 'unsigned' in p['t'] and p['t'].count('*') == 1 and 'char' not in p['t']:
            out.add('*' + p['name'])
    for b, i, st in fn.stmts():
        for d in nodes(st, lambda y: y.get('k') == 'decl'):
            for v in d['vars']:
                if 'unsigned' in v['t'] and '*' not in v['t'] and '[' not in v['t']:
                    out.add(v['name'])
    return out


WIDEN_AFTER = 3
THRESHOLDS = (-3, -2, -1, 0, 1, 2, 3)


def flag_locals(fn):
    """locals that only ever hold literal constants (flags like `handled`): states are partitioned by their value"""
    cand, bad = {}, set()
    for b, i, st in fn.stmts():
        for x in nodes(st):
            k = x['k']
            if k == 'decl':
                for v in x['vars']:
                    if '*' in v['t'] or '[' in v['t'] or not any(t in v['t'] for t in ('int', 'long', 'short', 'char', '_Bool')):
                        continue
                    if 'init' in v:
                        if is_lit(strip(v['init'])):
                            cand.setdefault(v['name'], set()).add(strip(v['init'])['v'])
                        else:
                            bad.add(v['name'])
                    else:
                        cand.setdefault(v['name'], set())
            elif k == 'assign':
                l = strip(x['l'])
                if l.get('k') == 'var':
                    if x['op'] == '=' and is_lit(strip(x['r'])):
                        if l['name'] in cand:
                            cand[l['name']].add(strip(x['r'])['v'])
                    else:
                        bad.add(l['name'])
            elif k == 'un' and x['op'] in ('++', '--', '++post', '--post', '&'):
                e = strip(x['e'])
                if e is not None and e.get('k') == 'var':
                    bad.add(e['name'])
    params = {p['name'] for p in fn.params}
    return sorted(n for n, vs in cand.items() if n not in bad and n not in params and 1 <= len(vs) <= 3)[:3]


def param_ranges(db, fn, depth=0, seen=()):
    """{param name: (lo, hi)} for integer parameters of `static` functions that every call site passes as a literal
    constant (or as the caller's own unwritten parameter with such a range); functions with external linkage, whose address
    is taken, or that nothing calls get none"""
    cache = db.__dict__.setdefault('_param_ranges', {})
    if fn.name in cache:
        return cache[fn.name]
    out = {}
    if depth > 3 or fn.name in seen:
        return out
    idx = db.__dict__.get('_callidx')
    if idx is None:
        idx = db.__dict__['_callidx'] = ({}, set())
        for f2 in db.fn.values():
            for b2, i2, st in f2.stmts():
                for n in nodes(st, lambda y: y.get('k') in ('call', 'fn')):
                    if n['k'] == 'call' and n.get('callee'):
                        idx[0].setdefault(n['callee'], []).append((f2, b2, i2, n))
                    elif n['k'] == 'fn':
                        idx[1].add(n.get('name'))
    callers = idx[0].get(fn.name, [])
    escapes = fn.name in idx[1] or not callers or not getattr(fn, 'static', False)     # only internal-linkage functions: every caller is in view
    if callers and not escapes:
        for pi, p in enumerate(fn.params):
            if '*' in p['t'] or not any(t in p['t'] for t in ('int', 'long', 'enum', 'short', 'char')):
                continue
            vals = []
            for cf, cb, ci, c in callers:
                if pi >= len(c['args']):
                    vals = None
                    break
                a = strip(c['args'][pi])
                if is_lit(a):
                    vals.append((a['v'], a['v']))
                elif a is not None and a.get('k') == 'var' and a.get('decl') == 'param':
                    r = param_ranges(db, cf, depth + 1, seen + (fn.name,)).get(a['name'])
                    # the caller must not write its parameter
                    written = any(strip(y['l']).get('k') == 'var' and strip(y['l'])['name'] == a['name'] for b2, i2, s2 in cf.stmts() for y in nodes(s2, lambda z: z.get('k') == 'assign'))
                    if r is None or written:
                        vals = None
                        break
                    vals.append(r)
                else:
                    vals = None
                    break
            if vals:
                out[p['name']] = (min(v[0] for v in vals), max(v[1] for v in vals))
    if depth == 0:
        cache[fn.name] = out
    return out


def solve(fn, db=None):
    """fixpoint: returns (CTX: block -> {context key: state}, unsigned terms).  A context key is (edge, flags):
    a block that ends in a switch keeps one state per incoming edge (the join is delayed past the dispatch, so that a
    `state = K; goto DISPATCH;` reaches only the arm K), and states are kept apart by the constant values of the
    function's flag locals (so that `if (!handled)` is decided per value of `handled`)."""
    live = C.reachable(fn, fn.entry)
    uns = unsigned_terms(fn)
    _DB[0] = db
    split = {b for b in live if fn.blocks[b].get('term', {}).get('kind') == 'SwitchStmt' and len(fn.preds.get(b, [])) > 1}
    flags = flag_locals(fn)

    def flagkey(fs):
        out = []
        for f in flags:
            hi, lo = fs.b.get((f, '0')), fs.b.get(('0', f))
            out.append(hi if (hi is not None and lo is not None and hi == -lo) else None)
        return tuple(out)

    def typefacts(fs):
        for u in uns:
            fs.add('0', u, 0)                # 0 <= u for unsigned terms: a type fact, survives every forget

    def flow(b, fs):
        """edge states out of block b for the state fs at its entry"""
        fs = Facts(fs)
        blk = fn.blocks[b]
        for st in blk['stmts']:
            transfer(fs, st, uns=uns)
            typefacts(fs)
        cnd = fn.cond_of(b)
        sw = term(blk['stmts'][-1]) if blk.get('term', {}).get('kind') == 'SwitchStmt' and blk['stmts'] else None
        out = []
        for j, s in enumerate(blk['succs']):
            if s is None or s not in live:
                continue
            ns = Facts(fs)
            if cnd and blk['stmts']:
                assume(ns, blk['stmts'][-1], j == 0, uns)
                typefacts(ns)
            elif sw:
                lab = fn.blocks[s].get('label', {})
                if lab.get('kind') == 'CaseStmt' and isinstance(lab.get('v'), int):
                    ns.add(sw[0], '0', lab['v'] - sw[1])
                    ns.add('0', sw[0], sw[1] - lab['v'])
            if not ns.bottom:
                out.append(((b, j), s, ns))
        return out

    def outs_of(b):
        """(target block, context key there, state) for every context of b and every feasible out edge, joined per target context"""
        outs = {}
        for key, st in CTX[b].items():
            for e, s, ns in flow(b, st):
                k = (s, (e if s in split else None, flagkey(ns)))
                outs[k] = outs[k].join(ns) if k in outs else ns
        return outs
    dom = C.dominators(fn)
    init = Facts()
    typefacts(init)
    if db is not None:
        written = {strip(y['l'])['name'] for b2, i2, s2 in fn.stmts() for y in nodes(s2, lambda z: z.get('k') == 'assign') if strip(y['l']).get('k') == 'var'}
        for pn, (lo, hi) in param_ranges(db, fn).items():
            init.add(pn, '0', hi)
            init.add('0', pn, -lo)
    CTX = {fn.entry: {(None, flagkey(init)): init}}
    work = [fn.entry]
    visits = {}
    while work:
        b = work.pop()
        visits[b] = visits.get(b, 0) + 1
        for (s, key), ns in outs_of(b).items():
            old = CTX.setdefault(s, {}).get(key)
            if old is None:
                CTX[s][key] = Facts(ns)
                if s not in work:
                    work.append(s)
                continue
            m = old.join(ns)
            # widen only what grows around a loop (back edge: the target dominates the source); what changes at the loop's
            # entry is driven by the enclosing loop, which has its own widening point
            if visits.get(s, 0) >= WIDEN_AFTER and (s in dom.get(b, ()) or visits.get(s, 0) > 30):
                m = old.widen(m)
            if visits.get(s, 0) > 80:
                m = Facts()
                typefacts(m)
            if m != old:
                CTX[s][key] = m
                if s not in work:
                    work.append(s)
    # narrowing: recompute every state from its predecessors' edge states, twice (each pass keeps a post-fixpoint)
    for _ in range(2):
        NEW = {}
        for b in CTX:
            for (s, key), ns in outs_of(b).items():
                d = NEW.setdefault(s, {})
                d[key] = d[key].join(ns) if key in d else ns
        for b in list(CTX):
            if b != fn.entry and b in NEW:
                CTX[b] = NEW[b]
    return CTX, uns


def analyse(fn, on_index, db=None):
    """run the dataflow to a fixpoint, then call on_index(node, facts, block, idx) for every subscript
    (once per context for the blocks that keep several); with db, integer parameters that every library call site
    passes as a constant start with that range"""
    CTX, uns = solve(fn, db)
    for b in CTX:
        for key, st0 in CTX[b].items():
            fs = Facts(st0)
            for i, st in enumerate(fn.blocks[b]['stmts']):
                transfer(fs, st, on_index=lambda x, f_, b=b, i=i: on_index(x, f_, b, i), uns=uns)
                for u in uns:
                    fs.add('0', u, 0)


def pairs_of(fn):
    """array key -> length key, discovered: adjacent (pointer, length) parameters; locals from bstr_ptr / bstr_len of one string"""
    pairs = {}
    ps = fn.params
    for i, p in enumerate(ps[:-1]):
        q = ps[i + 1]
        if '*' in p['t'] and ('char' in p['t'] or 'void' in p['t']) and ('len' in q['name'] or 'size' in q['name']):
            if '*' in q['t']:
                pairs[p['name']] = '*' + q['name']
            elif any(t in q['t'] for t in ('long', 'int')):
                pairs[p['name']] = q['name']
    ptr_of, len_of = {}, {}
    for b, i, st in fn.stmts():
        for x in nodes(st, lambda y: y.get('k') in ('decl', 'assign')):
            items = [(v['name'], v.get('init')) for v in x['vars']] if x['k'] == 'decl' else ([(P.K(x['l']), x['r'])] if x['op'] == '=' else [])
            for name, init in items:
                i0 = strip(init)
                if i0 is None:
                    continue
                m = i0.get('macro') or (init or {}).get('macro')
                if m == 'bstr_ptr' or (i0.get('k') == 'cond' and 'realptr' in P.K(i0)):
                    vs = [P.K(v) for v in nodes(i0, lambda y: y.get('k') in ('var',))]
                    ms = [P.K(mm['base']) for mm in nodes(i0, lambda y: y.get('k') == 'member' and y['field'] == 'realptr')]
                    src = (ms or vs or [None])[0]
                    if src:
                        ptr_of[name] = src.lstrip('*').strip('()')
                elif m == 'bstr_len' or (i0.get('k') == 'member' and i0['field'] == 'len' and i0.get('rec') == 'bstr_t'):
                    len_of[name] = P.K(i0['base']).lstrip('*').strip('()') if i0.get('k') == 'member' else None
                elif i0.get('k') == 'var' and i0['name'] in pairs and '*' in (strip(init) or {}).get('t', '*'):
                    pairs[name] = pairs[i0['name']]      # data = (unsigned char *) _data
    # out-parameter views: f(..., &A, &L, ...) with A a byte pointer local and L an integer local (the consolidated line view)
    for b, i, st in fn.stmts():
        for c in nodes(st, lambda y: y.get('k') == 'call'):
            for a1, a2 in zip(c['args'], c['args'][1:]):
                a1, a2 = strip(a1), strip(a2)
                if a1 is None or a2 is None or a1.get('k') != 'un' or a2.get('k') != 'un' or a1['op'] != '&' or a2['op'] != '&':
                    continue
                v1, v2 = strip(a1['e']), strip(a2['e'])
                if v1.get('k') == 'var' and v2.get('k') == 'var' and 'char *' in (v1.get('t') or '') and '*' not in (v2.get('t') or '*') and any(t in v2.get('t', '') for t in ('long', 'int')):
                    pairs.setdefault(v1['name'], v2['name'])
    for a, src in ptr_of.items():
        for l, src2 in len_of.items():
            if src and src == src2:
                pairs[a] = l
    # no local holds the length: pair the view with the length field itself (conditions read bstr_len(X) directly)
    for a, src in ptr_of.items():
        if a not in pairs and src:
            pairs[a] = '*%s.len' % src
    return pairs
