"""A3 (difference-bound guard analysis, restricted to what the rules need): forward dataflow of facts
"v + k < L" over simple integer terms (locals, parameters, members, *param), with shifting on v++ / v += c,
killing on other writes, intersection (min k) at joins. Used to classify subscripts on (array, length) pairs."""
import re
from .facts import S, strip, nodes, walk, is_lit
from . import pat as P
from . import cfg as C

INF = 10 ** 6


def term(e):
    """(key, const) for `key + const` shaped integer expressions; key '0' for pure constants; None otherwise"""
    e = strip(e)
    if e is None:
        return None
    k = e.get('k')
    if k == 'lit':
        return ('0', e['v'])
    if k in ('var',):
        return (e['name'], 0)
    if k == 'member':
        return (P.K(e), 0)
    if k == 'un' and e['op'] == '*' and strip(e['e']).get('k') == 'var':
        return ('*' + strip(e['e'])['name'], 0)
    if k == 'un' and e['op'] in ('++post', '--post'):
        return term(e['e'])
    if k == 'un' and e['op'] in ('++', '--'):
        t = term(e['e'])
        return (t[0], t[1] + (1 if e['op'] == '++' else -1)) if t else None
    if k == 'bin' and e['op'] in ('+', '-'):
        l, r = term(e['l']), term(e['r'])
        if l and r and r[0] == '0':
            return (l[0], l[1] + (r[1] if e['op'] == '+' else -r[1]))
        if l and r and l[0] == '0' and e['op'] == '+':
            return (r[0], r[1] + l[1])
    return None


class Facts(dict):
    """(v, L) -> k  meaning v + k < L"""

    def add(self, v, L, k):
        if v == L:
            return
        if self.get((v, L), -INF) < k:
            self[(v, L)] = k

    def kill(self, t):
        for p in [p for p in self if p[0] == t or p[1] == t or p[0].startswith(t + '->') or p[1].startswith(t + '->')]:
            del self[p]

    def shift(self, t, c):
        """t := t + c"""
        for p in list(self):
            if (p[0] == t and p[1] == t) or p[1] == '#wrap':
                continue
            if p[0] == t:
                self[p] = self[p] - c
            elif p[1] == t:
                self[p] = self[p] + c

    def close(self):
        """one-step transitive closure: a + k1 < b and b + k2 < c  =>  a + (k1 + k2 + 1) < c (integers)"""
        ch = True
        n = 0
        while ch and n < 4:
            ch = False
            n += 1
            items = list(self.items())
            for (a, b), k1 in items:
                if b == '#wrap':
                    continue
                for (b2, c), k2 in items:
                    if b2 != b or c == a or c == '#wrap':
                        continue
                    k = k1 + k2 + 1
                    if self.get((a, c), -INF) < k:
                        self[(a, c)] = k
                        ch = True

    def meet(self, o):
        m = Facts({p: min(k, o[p]) for p, k in self.items() if p in o})
        for src in (self, o):
            for p in src:
                if p[1] == '#wrap':
                    m[p] = 0                  # "may have wrapped" is a may-fact: union at joins
        return m


def assume(fs, cond, pol):
    a = strip(cond)
    if a is None:
        return
    if a.get('k') == 'un' and a['op'] == '!':
        return assume(fs, a['e'], not pol)
    if a.get('k') == 'bin' and a['op'] in ('<', '<=', '>', '>=', '==', '!='):
        l, r = term(a['l']), term(a['r'])
        if not l or not r:
            return
        op = a['op'] if pol else P.NEG[a['op']]
        (x, kx), (y, ky) = l, r                 # x + kx op y + ky
        if op == '<':
            fs.add(x, y, kx - ky)
            if x != '0':
                fs.add('0', y, kx - ky)          # x >= 0 (index terms are unsigned): 0 + (kx - ky) < y
        elif op == '<=':
            fs.add(x, y, kx - ky - 1)
            if x != '0':
                fs.add('0', y, kx - ky - 1)
        elif op == '>':
            fs.add(y, x, ky - kx)
            if y != '0':
                fs.add('0', x, ky - kx)
        elif op == '>=':
            fs.add(y, x, ky - kx - 1)
            if y != '0':
                fs.add('0', x, ky - kx - 1)
        elif op == '==':
            fs.add(x, y, kx - ky - 1)
            fs.add(y, x, ky - kx - 1)
        elif op == '!=':
            # unsigned x != 0  =>  0 < x
            if y == '0' and ky - kx == 0:
                fs.add('0', x, 0 - 0 + (kx - ky))
            # x <= y known and x != y  =>  x < y
            if fs.get((x, y), -INF) == kx - ky - 1:
                fs[(x, y)] = kx - ky
                if x != '0':
                    fs.add('0', y, kx - ky)
            if fs.get((y, x), -INF) == ky - kx - 1:
                fs[(y, x)] = ky - kx
                if y != '0':
                    fs.add('0', x, ky - kx)
    elif a.get('k') in ('var', 'member') or (a.get('k') == 'un' and a['op'] == '*'):
        t = term(a)
        if t and pol:
            fs.add('0', t[0], -t[1])          # truthy unsigned: 0 < t


def transfer(fs, st, on_index=None):
    """apply the effects of one root statement; on_index(node, facts) is called for every subscript before effects"""
    if on_index:
        for x in nodes(st, lambda y: y.get('k') == 'index'):
            on_index(x, fs)
    for x in nodes(st):
        k = x['k']
        if k == 'assign':
            lt = term(x['l'])
            if not lt or lt[1] != 0:
                continue
            t = lt[0]
            if x['op'] == '=':
                rt = term(x['r'])
                if rt and rt[0] == t:
                    fs.shift(t, rt[1])
                else:
                    fs.kill(t)
                    if rt and rt[0] != '0' and rt[1] < 0 and fs.get(('0', rt[0]), -INF) < -rt[1] - 1 and 'unsigned' in (strip(x['l']).get('t') or ''):
                        fs[(t, '#wrap')] = 0            # unsigned y - c with no y >= c fact: t may have wrapped
                    elif rt and rt[0] != '0':
                        # t = y + c  =>  t - c == y : t + (-c - 1) < y ... and y + (c - 1) < t
                        fs.add(t, rt[0], -rt[1] - 1)
                        fs.add(rt[0], t, rt[1] - 1)
                        # inherit upper bounds of y: y + k < L  =>  t + (k - c) < L
                        for (v, L), kk in list(fs.items()):
                            if v == rt[0] and L != t:
                                fs.add(t, L, kk - rt[1])
                            if L == rt[0] and v != t:
                                fs.add(v, t, kk + rt[1])
                    elif rt:
                        fs.add('0', t, rt[1] - 1)       # t = c  =>  0 + (c - 1) < t
                        fs.add(t, '0', -rt[1] - 1)
            elif x['op'] in ('+=', '-='):
                rt = term(x['r'])
                if rt and rt[0] == '0':
                    fs.shift(t, rt[1] if x['op'] == '+=' else -rt[1])
                else:
                    fs.kill(t)
            else:
                fs.kill(t)
        elif k == 'un' and x['op'] in ('++', '++post', '--', '--post'):
            lt = term(x['e'])
            if lt and lt[1] == 0:
                fs.shift(lt[0], 1 if '+' in x['op'] else -1)
        elif k == 'call':
            for a in x['args']:
                a = strip(a)
                if a is not None and a.get('k') == 'un' and a['op'] == '&':
                    t = term(a['e'])
                    if t:
                        fs.kill(t[0])
            for p in [p for p in fs if '->' in p[0] or '->' in p[1] or p[0].startswith('*') or p[1].startswith('*')]:
                # a call may write anything reachable through pointers
                if not (x.get('callee') or '').startswith(('htp_is_', 'isxdigit', 'isdigit', 'tolower', 'isspace', 'x2c')):
                    del fs[p]
        elif k == 'decl':
            for v in x['vars']:
                fs.kill(v['name'])
                if 'init' in v:
                    rt = term(v['init'])
                    if rt and rt[0] != '0' and rt[1] < 0 and fs.get(('0', rt[0]), -INF) < -rt[1] - 1 and 'unsigned' in v['t']:
                        fs[(v['name'], '#wrap')] = 0
                    elif rt and rt[0] != '0':
                        fs.add(v['name'], rt[0], -rt[1] - 1)
                        fs.add(rt[0], v['name'], rt[1] - 1)
                        for (vv, L), kk in list(fs.items()):
                            if vv == rt[0] and L != v['name']:
                                fs.add(v['name'], L, kk - rt[1])
                    elif rt:
                        fs.add('0', v['name'], rt[1] - 1)
                        fs.add(v['name'], '0', -rt[1] - 1)


def unsigned_terms(fn):
    out = set()
    for p in fn.params:
        if 'unsigned' in p['t'] and '*' not in p['t']:
            out.add(p['name'])
        elif 'unsigned' in p['t'] and p['t'].count('*') == 1 and 'char' not in p['t']:
            out.add('*' + p['name'])
    for b, i, st in fn.stmts():
        for d in nodes(st, lambda y: y.get('k') == 'decl'):
            for v in d['vars']:
                if 'unsigned' in v['t'] and '*' not in v['t'] and '[' not in v['t']:
                    out.add(v['name'])
    return out


def analyse(fn, on_index):
    """run the dataflow to a fixpoint, then call on_index(node, facts, block, idx) for every subscript"""
    live = C.reachable(fn, fn.entry)
    uns = unsigned_terms(fn)

    def typefacts(fs):
        for u in uns:
            fs.add('0', u, -1)               # 0 <= u for unsigned terms: a type fact, survives every kill
        fs.close()
    init = Facts()
    typefacts(init)
    IN = {fn.entry: init}
    work = [fn.entry]
    visits = {}
    while work:
        b = work.pop()
        visits[b] = visits.get(b, 0) + 1
        fs = Facts(IN[b])
        blk = fn.blocks[b]
        for st in blk['stmts']:
            transfer(fs, st)
            typefacts(fs)
        cnd = fn.cond_of(b)
        for j, s in enumerate(blk['succs']):
            if s is None or s not in live:
                continue
            ns = Facts(fs)
            if cnd and blk['stmts']:
                assume(ns, blk['stmts'][-1], j == 0)
                typefacts(ns)
            if s in IN:
                m = IN[s].meet(ns)
                if visits.get(s, 0) > 12:
                    # widening: drop facts that keep shrinking
                    m = Facts({p: k for p, k in m.items() if IN[s].get(p) == k})
                if m != IN[s]:
                    IN[s] = m
                    work.append(s)
            else:
                IN[s] = ns
                work.append(s)
    for b in live:
        if b not in IN:
            continue
        fs = Facts(IN[b])
        for i, st in enumerate(fn.blocks[b]['stmts']):
            transfer(fs, st, on_index=lambda x, f_, b=b, i=i: on_index(x, f_, b, i))
            typefacts(fs)


def pairs_of(fn):
    """array key -> length key, discovered: adjacent (pointer, length) parameters; locals from bstr_ptr / bstr_len of one string"""
    pairs = {}
    ps = fn.params
    for i, p in enumerate(ps[:-1]):
        q = ps[i + 1]
        if '*' in p['t'] and ('char' in p['t'] or 'void' in p['t']) and ('len' in q['name'] or 'size' in q['name']):
            if '*' in q['t']:
                pairs[p['name']] = '*' + q['name']
            elif any(t in q['t'] for t in ('long', 'int')):
                pairs[p['name']] = q['name']
    ptr_of, len_of = {}, {}
    for b, i, st in fn.stmts():
        for x in nodes(st, lambda y: y.get('k') in ('decl', 'assign')):
            items = [(v['name'], v.get('init')) for v in x['vars']] if x['k'] == 'decl' else ([(P.K(x['l']), x['r'])] if x['op'] == '=' else [])
            for name, init in items:
                i0 = strip(init)
                if i0 is None:
                    continue
                m = i0.get('macro') or (init or {}).get('macro')
                if m == 'bstr_ptr' or (i0.get('k') == 'cond' and 'realptr' in P.K(i0)):
                    vs = [P.K(v) for v in nodes(i0, lambda y: y.get('k') in ('var',))]
                    ms = [P.K(mm['base']) for mm in nodes(i0, lambda y: y.get('k') == 'member' and y['field'] == 'realptr')]
                    src = (ms or vs or [None])[0]
                    if src:
                        ptr_of[name] = src.lstrip('*').strip('()')
                elif m == 'bstr_len' or (i0.get('k') == 'member' and i0['field'] == 'len' and i0.get('rec') == 'bstr_t'):
                    len_of[name] = P.K(i0['base']).lstrip('*').strip('()') if i0.get('k') == 'member' else None
                elif i0.get('k') == 'var' and i0['name'] in pairs and '*' in (strip(init) or {}).get('t', '*'):
                    pairs[name] = pairs[i0['name']]      # data = (unsigned char *) _data
    for a, src in ptr_of.items():
        for l, src2 in len_of.items():
            if src and src == src2:
                pairs[a] = l
    return pairs
