"""python3 -m sa.show <function> : dump the extracted CFG of a function (debug aid)"""
import sys
from .facts import load, S

def dump(fn):
    print(fn.name, fn.loc, 'entry', fn.entry, 'exit', fn.exit)
    for bid in sorted(fn.blocks, reverse=True):
        b = fn.blocks[bid]
        print(' B%d %s' % (bid, ('label ' + str(b['label'])) if 'label' in b else ''))
        for i, s in enumerate(b['stmts']):
            print('   %2d %s   %s%s' % (i, S(s), s.get('loc', '').split(':', 1)[-1], (' «' + s['macro'] + '»') if 'macro' in s else ''))
        if 'term' in b:
            print('      T: %s %s' % (b['term']['kind'], b['term'].get('op', '')))
        print('      -> %s' % b['succs'])

if __name__ == '__main__':
    db = load(sys.argv[2] if len(sys.argv) > 2 else '/repo')
    dump(db.get(sys.argv[1]))
