#!/usr/bin/env python3
"""usage: seedrun2.py [-j N] [--own] <seeded-id> [...]
Like seedrun.py, but never touches /repo: for every stored change a throw-away copy of /repo's HEAD is made under /tmp
(git archive), the change is applied to the copy, every claimed check is run against the copy (`./check CNN --repo <copy>`,
quick tier, no evidence rewrite) and the copy is removed. N changes are processed at a time. Records which checks / rules fired
in seeded/<id>/result.json.  Used for the full regression over all stored changes; /repo stays free meanwhile."""
import json, os, shutil, subprocess, sys, tempfile
from concurrent.futures import ThreadPoolExecutor
V = os.path.dirname(os.path.dirname(os.path.abspath(__file__)))
OWN = False


def run(sid):
    d = os.path.join(V, 'seeded', sid)
    m = json.load(open(os.path.join(V, 'MANIFEST.json')))
    props = [c['property_id'] for c in m['checks']]
    if OWN:
        props = ['C' + sid[1:3]]
    t = tempfile.mkdtemp(prefix='libhtp-seedrun-')
    try:
        subprocess.run('git -C /repo archive HEAD | tar -x -C %s' % t, shell=True, check=True)
        for f in ('htp_config_auto_gen.h',):
            if os.path.exists('/repo/' + f):
                shutil.copy('/repo/' + f, t)
        if os.path.exists('/repo/htp/htp_version.h'):
            shutil.copy('/repo/htp/htp_version.h', os.path.join(t, 'htp'))
        genv = dict(os.environ, GIT_ALTERNATE_OBJECT_DIRECTORIES='/repo/.git/objects')
        subprocess.run('git init -q . && git add -A && git -c user.email=x@y -c user.name=x commit -qm base', shell=True, cwd=t, capture_output=True, env=genv)
        r = subprocess.run(['git', '-C', t, 'apply', os.path.join(d, 'patch.diff')], capture_output=True, text=True)
        if r.returncode != 0:
            r = subprocess.run(['git', '-C', t, 'apply', '--3way', os.path.join(d, 'patch.diff')], capture_output=True, text=True, env=genv)
            if r.returncode != 0:
                subprocess.run('git checkout -q -- . ; git reset -q --hard', shell=True, cwd=t, capture_output=True, env=genv)
        if r.returncode != 0:
            r = subprocess.run('patch -s -p1 -d %s < %s' % (t, os.path.join(d, 'patch.diff')), shell=True, capture_output=True, text=True)
        if r.returncode != 0:
            return '%-14s patch does not apply to HEAD: %s' % (sid, (r.stderr or r.stdout)[-200:].replace('\n', ' '))

        if OWN:
            def one(p):
                rr = subprocess.run([os.path.join(V, 'check'), p, '--repo', t], capture_output=True, text=True, env=dict(os.environ, VERIF_NO_EVIDENCE='1'))
                lines = [l.strip() for l in rr.stdout.split('\n') if l.startswith('   C') and ':' in l and 'rule ' not in l[:9]]
                return p, rr.returncode, lines
            out = [one(p) for p in props]
        else:
            # all properties in one process: modules and the fact base are shared between the checks
            rr = subprocess.run([os.path.join(V, 'check'), 'ALL', '--repo', t], capture_output=True, text=True, env=dict(os.environ, VERIF_NO_EVIDENCE='1'))
            out, cur = [], []
            for l in rr.stdout.split('\n'):
                if l.startswith('EXIT '):
                    _, p, rc = l.split()
                    out.append((p, int(rc), cur))
                    cur = []
                elif l.startswith('   C') and ':' in l and 'rule ' not in l[:9]:
                    cur.append(l.strip())
            if len(out) != len(props):
                return '%-14s runner failed: %s' % (sid, (rr.stderr or rr.stdout)[-300:].replace('\n', ' '))
    finally:
        shutil.rmtree(t, ignore_errors=True)
    fired = {p: lines for p, rc, lines in out if rc == 1}
    broken = [p for p, rc, lines in out if rc == 2]
    res = dict(seed=sid, checks_run=props, fired=fired, analysis_broken=broken, against='a scratch copy of /repo HEAD with the change applied (tools/seedrun2.py)')
    if OWN and os.path.exists(os.path.join(d, 'result.json')):
        old = json.load(open(os.path.join(d, 'result.json')))
        old['fired'].update(fired)
        old['own_check_fires'] = bool(fired)
        res = old
    json.dump(res, open(os.path.join(d, 'result.json'), 'w'), indent=1)
    return '%-14s fired: %s%s' % (sid, ', '.join('%s[%s]' % (p, ';'.join(sorted({l.split(' ')[0] for l in ls}))) for p, ls in fired.items()) or 'NONE', ('  BROKEN: ' + ','.join(broken)) if broken else '')


if __name__ == '__main__':
    args = sys.argv[1:]
    j = 4
    while args and args[0].startswith('-'):
        if args[0] == '--own':
            OWN = True
            args = args[1:]
        elif args[0] == '-j':
            j = int(args[1])
            args = args[2:]
        else:
            break
    with ThreadPoolExecutor(max_workers=j) as ex:
        for line in ex.map(run, args):
            print(line, flush=True)
