#!/bin/sh
# runs the thorough command of every check of MANIFEST.json in parallel (no evidence rewrite) and prints the exit codes;
# to be run after every rule change: the extra preprocessor configurations see code the quick tier does not
cd "$(dirname "$0")/.."
for id in $(python3 -c "import json;print(' '.join(c['property_id'] for c in json.load(open('MANIFEST.json'))['checks']))"); do
  (VERIF_NO_EVIDENCE=1 ./check $id --tier thorough > work/th_$id.log 2>&1; echo "$id exit=$?") &
done
wait
grep -l "VIOLATION\|BROKEN\|Traceback" work/th_C*.log 2>/dev/null && exit 1
exit 0
