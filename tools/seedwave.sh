#!/bin/sh
# usage: seedwave.sh <cNN> <suffix>: confirms out/1..3 of the agent's worktree /tmp/seed-<cNN><suffix> under the next free ids,
# removes the worktree, runs every check against each stored change and writes its meta.json
P=$1; S=$2; W=/tmp/seed-$P$S
cd /verif
last=$(ls seeded seeded_retired 2>/dev/null | grep "^$P-" | sed "s/$P-//" | sort -n | tail -1)
ids=""
for n in 1 2 3; do
  [ -f $W/out/$n/patch.diff ] || continue
  last=$((last+1)); id=$P-$last
  tools/seedconfirm.sh $W $n $id | grep -v conda | tail -2
  [ -d seeded/$id ] && { ids="$ids $id"; echo "$W $n" > seeded/$id/.origin; }
done
git -C /repo worktree remove --force $W; rm -rf $W
for id in $ids; do
  python3 tools/seedrun.py $id 2>&1 | grep -v conda
  set -- $(cat seeded/$id/.origin); rm -f seeded/$id/.origin
  python3 tools/mkseedmeta.py $id $1 $2 | grep -v conda
done
