#!/usr/bin/env python3
"""usage: mkseedmeta.py <seeded-id> <worktree> <n>: writes seeded/<id>/meta.json from the agent's meta (meta.agent.json), the
stored demo output and result.json (tools/seedrun.py / tools/seedthorough.py)."""
import json, os, sys
V = os.path.dirname(os.path.dirname(os.path.abspath(__file__)))
sid, wt, n = sys.argv[1:4]
d = os.path.join(V, 'seeded', sid)
a = json.load(open(os.path.join(d, 'meta.agent.json'))) if os.path.exists(os.path.join(d, 'meta.agent.json')) else {}
r = json.load(open(os.path.join(d, 'result.json')))
prop = 'C' + sid[1:3]
m = dict(id=sid, property=a.get('property', prop), summary=a.get('summary', ''), needs_to_manifest=a.get('needs_to_manifest', a.get('needs', '')),
         files=a.get('files', []),
         origin='written by a fresh sub-agent that was given only the property text and its own scratch worktree of /repo (nothing from /verif)',
         confirmed_by_me=['tools/seedconfirm.sh %s %s %s  (in the scratch worktree: git apply patch.diff; make; make -C test check => 341 passed; demo exits non-zero with the patch; git checkout -- htp; rebuild; demo exits 0)' % (wt, n, sid),
                          'tools/seedrun.py %s  (git -C /repo apply patch.diff; every claimed check, quick tier; git -C /repo checkout -- .)' % sid],
         demo_output_with_patch=open(os.path.join(d, 'demo-output-with-patch.txt')).read() if os.path.exists(os.path.join(d, 'demo-output-with-patch.txt')) else '',
         checks_that_fire=r.get('fired', {}))
if r.get('thorough'):
    m['confirmed_by_me'].append('tools/seedthorough.py %s %s  (thorough tier against a scratch copy with the patch)' % (sid, ','.join(r['thorough'])))
    m['thorough_checks_that_fire'] = {p: v['fired'] for p, v in r['thorough'].items() if v['exit'] == 1}
json.dump(m, open(os.path.join(d, 'meta.json'), 'w'), indent=1)
print(sid, 'fires:', ', '.join(m['checks_that_fire']) or 'NONE')
