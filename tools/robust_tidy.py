#!/usr/bin/env python3
"""Refactoring-noise robustness test: copies /repo's sources to a scratch directory, lets clang-tidy rewrite them with a set
of behaviour-preserving readability fixes (else-after-return, braces around statements, isolated declarations, redundant
control flow, simplified boolean expressions, ...), checks that the result still compiles, runs every quick check on it and
compares the set of (rule, instance, status) with the run on /repo."""
import json, os, shutil, subprocess, sys
V = os.path.dirname(os.path.dirname(os.path.abspath(__file__)))
sys.path.insert(0, os.path.join(V, 'selftest'))
from run import scratch
CHECKS = sys.argv[1] if len(sys.argv) > 1 else 'readability-else-after-return,readability-braces-around-statements,readability-isolate-declaration,readability-redundant-control-flow,readability-simplify-boolean-expr,readability-misleading-indentation,readability-redundant-declaration,readability-non-const-parameter'
props = [c['property_id'] for c in json.load(open(os.path.join(V, 'MANIFEST.json')))['checks']]


def run_all(repo):
    out = {}
    for p in props:
        r = subprocess.run([os.path.join(V, 'check'), p, '--repo', repo, '--json-obligations'], capture_output=True, text=True, env=dict(os.environ, VERIF_NO_EVIDENCE='1'))
        obs = None
        for l in r.stdout.split('\n'):
            if l.startswith('OBLIGATIONS '):
                obs = json.loads(l[len('OBLIGATIONS '):])
        out[p] = (r.returncode, obs, r.stdout[-400:])
    return out


d = scratch()
try:
    flags = ['-DHAVE_CONFIG_H', '-I' + d, '-I' + os.path.join(d, 'htp'), '-I' + os.path.join(V, 'tools', 'fallback_include'), '-D_GNU_SOURCE', '-std=gnu99', '-w']
    files = sorted(os.path.join(d, 'htp', f) for f in os.listdir(os.path.join(d, 'htp')) if f.endswith('.c') and f != 'htp_request_parsers.c')
    before = {f: open(f, errors='replace').read() for f in files}
    for rnd in range(2):
        subprocess.run(['clang-tidy', '-checks=-*,' + CHECKS, '-fix', '-fix-errors', '--quiet'] + files + ['--'] + flags, capture_output=True, text=True)
    import re
    for f in files:                      # clang-tidy glues a preprocessor line to the brace it moved: put it back on its own line
        t = open(f, errors='replace').read()
        t2 = re.sub(r'\}[ \t]*(#[ \t]*(ifdef|ifndef|if|endif|else))', r'}\n\1', t)
        if t2 != t:
            open(f, 'w').write(t2)
    changed = [f for f in files if open(f, errors='replace').read() != before[f]]
    nl = sum(1 for f in changed for a, b in zip(before[f].split('\n'), open(f, errors='replace').read().split('\n')) if a != b)
    print('clang-tidy rewrote %d of %d files (~%d lines differ)' % (len(changed), len(files), nl))
    bad = 0
    for f in files:
        r = subprocess.run(['clang', '-fsyntax-only'] + flags + [f], capture_output=True, text=True)
        if r.returncode != 0:
            bad += 1
            print('DOES NOT COMPILE:', f, r.stderr.split('\n')[0][:200])
    if bad:
        sys.exit(2)
    base, got = run_all('/repo'), run_all(d)
    diffs = 0
    for p in props:
        (rc0, o0, t0), (rc1, o1, t1) = base[p], got[p]
        s0 = {(o['rule'], o['instance'], o['status']) for o in (o0 or [])}
        s1 = {(o['rule'], o['instance'], o['status']) for o in (o1 or [])}
        if rc0 != rc1 or s0 != s1:
            diffs += 1
            print('DIFF %s exit %s -> %s' % (p, rc0, rc1))
            if o1 is None:
                print('   ', t1.replace('\n', '\n    '))
            for x in sorted(s0 - s1)[:10]:
                print('    only on /repo    :', x)
            for x in sorted(s1 - s0)[:10]:
                print('    only on rewritten:', x)
        else:
            print('same %s (%d obligations)' % (p, len(s0)))
    print('%d differences' % diffs)
    sys.exit(1 if diffs else 0)
finally:
    if os.environ.get('KEEP_SCRATCH'):
        print('scratch kept at', d)
    else:
        shutil.rmtree(d, ignore_errors=True)
