#!/usr/bin/env python3
"""Naming-robustness test of the checks: in a scratch copy of /repo's sources every parameter and local variable of every
function under htp/ (outside the LZMA SDK) is renamed (suffix _rn; struct members, labels and macro bodies are left alone),
then every quick check runs against the copy. With the suffix stripped from the instance keys the verdicts must be the
same as on /repo: no rule may depend on what a local happens to be called."""
import json, os, re, shutil, subprocess, sys
V = os.path.dirname(os.path.dirname(os.path.abspath(__file__)))
sys.path.insert(0, V)
sys.path.insert(0, os.path.join(V, 'selftest'))
from run import scratch
from sa.facts import load, nodes

SUF = '_rn'
props = [c['property_id'] for c in json.load(open(os.path.join(V, 'MANIFEST.json')))['checks']]
only = sys.argv[1:]


def run_all(repo):
    out = {}
    for p in props:
        r = subprocess.run([os.path.join(V, 'check'), p, '--repo', repo, '--json-obligations'], capture_output=True, text=True, env=dict(os.environ, VERIF_NO_EVIDENCE='1'))
        obs = None
        for l in r.stdout.split('\n'):
            if l.startswith('OBLIGATIONS '):
                obs = json.loads(l[len('OBLIGATIONS '):])
        out[p] = (r.returncode, obs, r.stdout[-600:])
    return out


db = load('/repo')
d = scratch()
try:
    byfile = {}
    for name, f in db.fn.items():
        if not f.blocks or '/lzma/' in f.loc or f.loc.startswith('htp/lzma'):
            continue
        if only and name not in only:
            continue
        file, l0 = f.loc.split(':')[0], int(f.loc.split(':')[1])
        l1 = int(f.end.split(':')[1])
        names = {p['name'] for p in f.params if p['name']}
        for b, i, st in f.stmts():
            for x in nodes(st, lambda y: y.get('k') == 'decl'):
                names |= {v['name'] for v in x['vars']}
        byfile.setdefault(file, []).append((l0, l1, names))
    nren = 0
    for file, fns in byfile.items():
        p = os.path.join(d, file)
        lines = open(p, errors='replace').read().split('\n')
        for l0, l1, names in fns:
            if not names:
                continue
            # the signature may start a line or two above the name; include up to 3 lines above that do not end a block
            s = l0 - 1
            while s > 0 and l0 - 1 - s < 3 and lines[s - 1].strip() and not lines[s - 1].strip().endswith(('}', ';', '*/')) and not lines[s - 1].strip().startswith(('#', '//', '*', '/*')):
                s -= 1
            rx = re.compile(r'(?<![\w.])(?<!->)\b(' + '|'.join(sorted(map(re.escape, names), key=len, reverse=True)) + r')\b(?!\s*:(?!:)[^;]*$)')
            for k in range(s, min(l1, len(lines))):
                ln = lines[k]
                if ln.lstrip().startswith('#'):
                    continue
                # leave string literals and comments alone (coarse: split on quotes)
                parts = re.split(r'("(?:[^"\\]|\\.)*"|//.*$|/\*.*?\*/)', ln)
                for j in range(0, len(parts), 2):
                    parts[j], c = rx.subn(lambda m: m.group(1) + SUF, parts[j])
                    nren += c
                lines[k] = ''.join(parts)
        open(p, 'w').write('\n'.join(lines))
    print('renamed %d identifier occurrences in %d files' % (nren, len(byfile)))
    # does it still compile?
    bad = 0
    for file in sorted(byfile):
        r = subprocess.run(['clang', '-fsyntax-only', '-w', '-DHAVE_CONFIG_H', '-I' + d, '-I' + os.path.join(d, 'htp'), '-I' + os.path.join(V, 'tools', 'fallback_include'), '-D_GNU_SOURCE', '-std=gnu99', os.path.join(d, file)], capture_output=True, text=True)
        if r.returncode != 0:
            bad += 1
            print('DOES NOT COMPILE:', file, r.stderr.split('\n')[0][:200])
    if bad:
        sys.exit(2)
    base = run_all('/repo')
    got = run_all(d)
    diffs = 0
    strip = lambda s_: s_.replace(SUF, '')
    for p in props:
        (rc0, o0, t0), (rc1, o1, t1) = base[p], got[p]
        s0 = {(o['rule'], o['instance'], o['status']) for o in (o0 or [])}
        s1 = {(o['rule'], strip(o['instance']), o['status']) for o in (o1 or [])}
        if rc0 != rc1 or s0 != s1:
            diffs += 1
            print('DIFF %s exit %s -> %s' % (p, rc0, rc1))
            if o1 is None:
                print('   ', t1.replace('\n', '\n    ')[-500:])
            for x in sorted(s0 - s1)[:10]:
                print('    only on /repo  :', x)
            for x in sorted(s1 - s0)[:10]:
                print('    only on renamed:', x)
        else:
            print('same %s (%d obligations)' % (p, len(s0)))
    print('%d differences' % diffs)
    sys.exit(1 if diffs else 0)
finally:
    if os.environ.get('KEEP_SCRATCH'):
        print('scratch kept at', d)
    else:
        shutil.rmtree(d, ignore_errors=True)
