#!/usr/bin/env python3
"""Layout-robustness test of the checks: copies /repo's sources to a scratch directory, reformats every .c/.h file with
clang-format (two very different styles), runs every quick check against the copy and compares the verdict counts and the
set of (rule, instance key, status) with the run on /repo. Instance keys are line-number free, so they must be identical.
usage: tools/robust_reformat.py [style ...]      (default: LLVM and a wide GNU-like style)"""
import json, os, shutil, subprocess, sys
V = os.path.dirname(os.path.dirname(os.path.abspath(__file__)))
sys.path.insert(0, os.path.join(V, 'selftest'))
from run import scratch

STYLES = sys.argv[1:] or ['{BasedOnStyle: LLVM, ColumnLimit: 100}', '{BasedOnStyle: GNU, ColumnLimit: 60, BreakBeforeBraces: Allman}']
props = [c['property_id'] for c in json.load(open(os.path.join(V, 'MANIFEST.json')))['checks']]


def run_all(repo):
    out = {}
    for p in props:
        r = subprocess.run([os.path.join(V, 'check'), p, '--repo', repo, '--json-obligations'], capture_output=True, text=True, env=dict(os.environ, VERIF_NO_EVIDENCE='1'))
        obs = None
        for l in r.stdout.split('\n'):
            if l.startswith('OBLIGATIONS '):
                obs = json.loads(l[len('OBLIGATIONS '):])
        out[p] = (r.returncode, obs)
    return out


base = run_all('/repo')
bad = 0
for style in STYLES:
    d = scratch()
    try:
        files = [os.path.join(dp, f) for dp, dn, fs in os.walk(d) for f in fs if f.endswith(('.c', '.h'))]
        subprocess.run(['clang-format', '-i', '--style=' + style] + files, check=True)
        got = run_all(d)
        for p in props:
            (rc0, o0), (rc1, o1) = base[p], got[p]
            s0 = {(o['rule'], o['instance'], o['status']) for o in (o0 or [])}
            s1 = {(o['rule'], o['instance'], o['status']) for o in (o1 or [])}
            if rc0 != rc1 or s0 != s1:
                bad += 1
                print('DIFF %s style=%s exit %s -> %s' % (p, style[:40], rc0, rc1))
                for x in sorted(s0 - s1)[:8]:
                    print('    only on /repo     :', x)
                for x in sorted(s1 - s0)[:8]:
                    print('    only on reformatted:', x)
            else:
                print('same %s (%d obligations) style=%s' % (p, len(s0), style[:30]))
    finally:
        shutil.rmtree(d, ignore_errors=True)
print('%d differences' % bad)
sys.exit(1 if bad else 0)
