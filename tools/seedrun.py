#!/usr/bin/env python3
"""usage: seedrun.py <seeded-id> [...]: applies /verif/seeded/<id>/patch.diff to /repo (git apply), runs every
claimed check (quick tier, no evidence rewrite), undoes the patch straight afterwards (git checkout -- .) and
records which checks / rules fired in seeded/<id>/result.json."""
import json, os, subprocess, sys
from concurrent.futures import ThreadPoolExecutor
V = os.path.dirname(os.path.dirname(os.path.abspath(__file__)))


OWN = False


def run(sid):
    d = os.path.join(V, 'seeded', sid)
    m = json.load(open(os.path.join(V, 'MANIFEST.json')))
    props = [c['property_id'] for c in m['checks']]
    if OWN:                                   # only the check of the property the change was written against
        props = ['C' + sid[1:3]]
    r = subprocess.run(['git', '-C', '/repo', 'apply', '--3way', os.path.join(d, 'patch.diff')], capture_output=True, text=True)
    if r.returncode != 0:
        r = subprocess.run(['git', '-C', '/repo', 'apply', os.path.join(d, 'patch.diff')], capture_output=True, text=True)
    if r.returncode != 0:
        print(sid, 'patch does not apply to /repo:', r.stderr[-300:])
        subprocess.run(['git', '-C', '/repo', 'reset', '-q'])
        subprocess.run(['git', '-C', '/repo', 'checkout', '--', '.'])
        return
    try:
        def one(p):
            rr = subprocess.run([os.path.join(V, 'check'), p], capture_output=True, text=True, env=dict(os.environ, VERIF_NO_EVIDENCE='1'))
            lines = [l.strip() for l in rr.stdout.split('\n') if l.startswith('   C') and ':' in l and 'rule ' not in l[:9]]
            return p, rr.returncode, lines
        with ThreadPoolExecutor(max_workers=8) as ex:
            out = list(ex.map(one, props))
    finally:
        subprocess.run(['git', '-C', '/repo', 'reset', '-q'])
        subprocess.run(['git', '-C', '/repo', 'checkout', '--', '.'])
    fired = {p: lines for p, rc, lines in out if rc == 1}
    broken = [p for p, rc, lines in out if rc == 2]
    res = dict(seed=sid, checks_run=props, fired=fired, analysis_broken=broken)
    if OWN and os.path.exists(os.path.join(d, 'result.json')):
        old = json.load(open(os.path.join(d, 'result.json')))
        old['fired'].update(fired)
        old['own_check_fires'] = bool(fired)
        old['analysis_broken'] = sorted(set(old.get('analysis_broken', [])) - set(props) | set(broken))
        res = old
    json.dump(res, open(os.path.join(d, 'result.json'), 'w'), indent=1)
    print('%-14s fired: %s%s' % (sid, ', '.join('%s[%s]' % (p, ';'.join(sorted({l.split(' ')[0] for l in ls}))) for p, ls in fired.items()) or 'NONE', ('  BROKEN: ' + ','.join(broken)) if broken else ''))


if __name__ == '__main__':
    args = sys.argv[1:]
    if args and args[0] == '--own':
        OWN = True
        args = args[1:]
    for s in args:
        run(s)
