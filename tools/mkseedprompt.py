#!/usr/bin/env python3
"""usage: mkseedprompt.py <cNN> <suffix>: writes /tmp/prompt-<cNN><suffix>.txt, the task text for a fresh sub-agent that
writes property-breaking changes in its scratch worktree /tmp/seed-<cNN><suffix>.  The agent gets the property text and the
names of functions earlier changes already used (so that it goes somewhere else) - nothing about the checks in /verif."""
import json, os, re, sys
V = os.path.dirname(os.path.dirname(os.path.abspath(__file__)))
p, suf = sys.argv[1], sys.argv[2]
pid = 'C' + p[1:3]
prop = next(json.loads(l) for l in open(os.path.join(V, 'properties.jsonl')) if json.loads(l)['id'] == pid)
used = set()
sd = os.path.join(V, 'seeded')
for d in sorted(os.listdir(sd)):
    if not d.startswith(p + '-'):
        continue
    f = os.path.join(sd, d, 'meta.json')
    if not os.path.exists(f):
        f = os.path.join(sd, d, 'meta.agent.json')
    if os.path.exists(f):
        s = json.load(open(f)).get('summary', '')
        used.update(re.findall(r'\b((?:htp|bstr|Lzma)_[A-Za-z0-9_]+)\s*\(', s)[:2])
W = '/tmp/seed-%s%s' % (p, suf)
txt = '''You are helping to test a verification effort for the C library OISF/libhtp (a streaming HTTP/1.x parser). Your job is
to play a careless-but-plausible maintainer: write THREE independent source changes to the library, each of which BREAKS the
property below while the library still compiles (no new warnings that -Werror would reject) and the project's existing test
suite (341 tests) still passes. You work ONLY inside your own scratch git worktree %(W)s, which is already configured,
built and tested (static library at htp/.libs/libhtp.a; tests: `make -C test check`, the result line is in test/test_all.log
and must read "[  PASSED  ] 341 tests."). Never touch /repo or /verif and do not read anything under /verif.

THE PROPERTY (id %(pid)s): %(title)s

Statement: %(statement)s

Quantification: %(quant)s

Why the existing tests cannot settle it: %(why)s

Where it lives (anchors): %(anchors)s

WHAT KIND OF CHANGE. Each change must look like something a maintainer could really commit: a refactoring, a clean-up, a
"simplification", a performance tweak, a moved statement, an update dropped on one branch, a reset forgotten, a wrong but
similar field, two checks merged, an early return added, a helper reused where it almost fits. It must need something SPECIFIC
to manifest - a particular chunking or interleaving of the two directions, a multi-step API sequence, an unusual but legal
input, a non-default configuration, a failing allocation at one particular point, or two cooperating sites that each look fine
alone - not something ordinary use would expose at once. Do NOT merely weaken or flip one comparison operator, and do not
write anything that is obviously sabotage (no `if (magic) abort()`). The three changes must be of different kinds and sit in
different functions. Earlier rounds already used these functions for this property - go somewhere else, or to a different
mechanism if you must touch one of them: %(used)s. Parts of the anchors that earlier changes never touched are especially welcome.
A gcov build in a scratch copy under /tmp (remove it afterwards) is a good way to find code that the tests never execute.

WHAT TO DELIVER, for n = 1, 2, 3, under %(W)s/out/<n>/ :
  patch.diff  - `git diff -- htp` of exactly that one change against the worktree's HEAD (each patch applies to a clean tree
                on its own; revert with `git checkout -- htp` between changes);
  demo.c      - a small self-contained C program (uses only the public headers under htp/, built with
                `gcc -g -I. -Ihtp out/<n>/demo.c htp/.libs/libhtp.a -lz -lpthread -o out/<n>/demo`, run from the worktree root,
                finishing in under 60 s) that checks the property's own statement on a concrete scenario: it exits 0 on the
                unmodified library and exits non-zero (printing what went wrong) when the change is applied. If the change needs
                an allocation failure, the demo may interpose malloc/calloc/realloc/strdup with --wrap or a counting wrapper it
                defines itself (say so in meta.json and give the exact build line if it differs);
  meta.json   - {"property": "%(pid)s", "summary": "<function(s) changed, what the change does and why the property breaks>",
                "needs_to_manifest": "<the specific input / chunking / sequence / configuration / fault point>",
                "files": [...], "kind": "<kind of change>", "why_tests_pass": "<why the 341 tests do not notice>",
                "commands_run": [...]}.
For each change verify yourself, in this order: apply it, `make -j16`, `make -C test check` gives 341 passed, build and run the
demo (must fail); `git checkout -- htp`, `make -j16`, run the demo again (must pass). Leave the worktree clean (no
modifications under htp/) and built from the unmodified sources when you finish.

FINALLY, report in your answer (a) one line per change, and (b) under the heading ODDITIES anything in the UNMODIFIED library
that you noticed while reading and that itself looks like a violation of this property or a latent bug (function, what input
would show it) - these remarks are valuable, be specific, but do not spend time proving them.
''' % dict(W=W, pid=pid, title=prop['title'], statement=prop['statement'],
           quant=prop['quantifier']['text'] if isinstance(prop.get('quantifier'), dict) else prop.get('quantifier', ''),
           why=prop.get('why_tests_cant', ''), anchors=prop.get('anchors', ''), used=', '.join(sorted(used)) or '(none)')
open('/tmp/prompt-%s%s.txt' % (p, suf), 'w').write(txt)
print('/tmp/prompt-%s%s.txt' % (p, suf), len(txt))
