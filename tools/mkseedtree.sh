#!/bin/sh
# creates a built scratch git worktree of /repo at /tmp/seed-<name> (for seeded-change experiments only)
set -e
D=/tmp/seed-$1
git -C /repo worktree add -q --detach "$D" HEAD
rsync -a --exclude .git --exclude '*.o' --exclude '*.lo' --exclude '*.la' --exclude .libs --exclude .deps --ignore-existing /repo/ "$D"/
cd "$D" && ./configure >/dev/null 2>&1 && make -j16 >/dev/null 2>&1 && make -C test check >/dev/null 2>&1 && tail -2 test/test_all.log | head -1
echo "$D ready"
