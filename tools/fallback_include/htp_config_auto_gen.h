/* htp_config_auto_gen.h.  Generated from htp_config_auto_gen.h.in by configure.  */
/* htp_config_auto_gen.h.in.  Generated from configure.ac by autoheader.  */

/* Define to 1 if you have the <dlfcn.h> header file. */
#define HAVE_DLFCN_H 1

/* Define if you have the iconv() function and it works. */
#define HAVE_ICONV 1

/* "Define to 1 if you have the `iconvctl' function." */
/* #undef HAVE_ICONVCTL */

/* Define to 1 if you have the <inttypes.h> header file. */
#define HAVE_INTTYPES_H 1

/* Define to 1 if you have the `z' library (-lz). */
#define HAVE_LIBZ 1

/* Define to 1 if you have the <stdint.h> header file. */
#define HAVE_STDINT_H 1

/* Define to 1 if you have the <stdio.h> header file. */
#define HAVE_STDIO_H 1

/* Define to 1 if you have the <stdlib.h> header file. */
#define HAVE_STDLIB_H 1

/* Define to 1 if you have the <strings.h> header file. */
#define HAVE_STRINGS_H 1

/* Define to 1 if you have the <string.h> header file. */
#define HAVE_STRING_H 1

/* Define to 1 if you have the `strlcat' function. */
/* #undef HAVE_STRLCAT */

/* Define to 1 if you have the `strlcpy' function. */
/* #undef HAVE_STRLCPY */

/* Define to 1 if you have the <sys/stat.h> header file. */
#define HAVE_SYS_STAT_H 1

/* Define to 1 if you have the <sys/types.h> header file. */
#define HAVE_SYS_TYPES_H 1

/* Define to 1 if you have the <unistd.h> header file. */
#define HAVE_UNISTD_H 1

/* Define as const if the declaration of iconv() needs const. */
#define ICONV_CONST 

/* Define to the sub-directory where libtool stores uninstalled libraries. */
#define LT_OBJDIR ".libs/"

/* Name of package */
#define PACKAGE "libhtp"

/* Define to the address where bug reports for this package should be sent. */
#define PACKAGE_BUGREPORT ""

/* Define to the full name of this package. */
#define PACKAGE_NAME "LibHTP"

/* Define to the full name and version of this package. */
#define PACKAGE_STRING "LibHTP 0.5.47"

/* Define to the one symbol short name of this package. */
#define PACKAGE_TARNAME "libhtp"

/* Define to the home page for this package. */
#define PACKAGE_URL ""

/* Define to the version of this package. */
#define PACKAGE_VERSION "0.5.47"

/* Define to 1 if all of the C90 standard headers exist (not just the ones
   required in a freestanding environment). This macro is provided for
   backward compatibility; new code need not use it. */
#define STDC_HEADERS 1

/* Version number of package */
#define VERSION "0.5.47"
