#!/bin/sh
# usage: trypatch.sh <seeded-id> <CNN> [...]: applies seeded/<id>/patch.diff to a throw-away copy of /repo's HEAD and runs the
# named checks against the copy (no evidence written). For rule development while /repo itself is busy.
ID=$1; shift
D=$(mktemp -d /tmp/trypatch-XXXXXX)
trap 'rm -rf "$D"' EXIT
git -C /repo archive HEAD | tar -x -C "$D"
cp /repo/htp_config_auto_gen.h "$D"/ 2>/dev/null; cp /repo/htp/htp_version.h "$D"/htp/ 2>/dev/null
(cd "$D" && git init -q . 2>/dev/null && git apply /verif/seeded/$ID/patch.diff 2>/dev/null || patch -s -p1 -d "$D" < /verif/seeded/$ID/patch.diff) || { echo "patch does not apply"; exit 2; }
for p in "$@"; do
  VERIF_NO_EVIDENCE=1 /verif/check $p --repo "$D" 2>&1 | grep -B1 "^VIOLATION\|^ANALYSIS-BROKEN" | grep -v "^VIOLATION\|^--" | cut -c1-220
  true
done
