#!/usr/bin/env python3
"""usage: seedthorough.py <seeded-id> <PROP>[,<PROP>...]: runs the thorough tier of the named checks against a scratch copy of
/repo's sources (outside /repo and /verif, removed afterwards) with seeded/<id>/patch.diff applied; /repo itself is not touched.
Adds the outcome to seeded/<id>/result.json under "thorough"."""
import json, os, shutil, subprocess, sys
V = os.path.dirname(os.path.dirname(os.path.abspath(__file__)))
sys.path.insert(0, os.path.join(V, 'selftest'))
from run import scratch

sid, props = sys.argv[1], sys.argv[2].split(',')
d = scratch()
try:
    r = subprocess.run(['patch', '-p1', '-s', '-d', d, '-i', os.path.join(V, 'seeded', sid, 'patch.diff')], capture_output=True, text=True)
    if r.returncode != 0:
        sys.exit('patch does not apply: ' + r.stdout + r.stderr)
    out = {}
    for p in props:
        rr = subprocess.run([os.path.join(V, 'check'), p, '--tier', 'thorough', '--repo', d], capture_output=True, text=True, env=dict(os.environ, VERIF_NO_EVIDENCE='1'))
        lines = [l.strip() for l in rr.stdout.split('\n') if l.startswith('   C') and ':' in l and 'rule ' not in l[:9]]
        out[p] = dict(exit=rr.returncode, fired=lines)
        print('%s %s exit=%d %s' % (sid, p, rr.returncode, ';'.join(sorted({l.split(' ')[0] + ' ' + l.split(' ')[1] for l in lines}))))
    rp = os.path.join(V, 'seeded', sid, 'result.json')
    res = json.load(open(rp)) if os.path.exists(rp) else {}
    res.setdefault('thorough', {}).update(out)
    json.dump(res, open(rp, 'w'), indent=1)
finally:
    shutil.rmtree(d, ignore_errors=True)
