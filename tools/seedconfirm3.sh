#!/bin/sh
# usage: seedconfirm3.sh <cNN> <suffix>: confirms out/1..3 of /tmp/seed-<cNN><suffix> under the next free ids, removes the worktree,
# prints the ids (no check is run: that is tools/seedrun.py's job)
P=$1; S=$2; W=/tmp/seed-$P$S
cd /verif
last=$(ls seeded seeded_retired 2>/dev/null | grep "^$P-" | sed "s/$P-//" | sort -n | tail -1)
for n in 1 2 3; do
  [ -f $W/out/$n/patch.diff ] || continue
  last=$((last+1)); id=$P-$last
  tools/seedconfirm.sh $W $n $id | grep -v conda | tail -2
  [ -d seeded/$id ] && echo "$W $n" > seeded/$id/.origin
done
git -C /repo worktree remove --force $W; rm -rf $W
