#!/usr/bin/env python3
"""Generates /verif/MANIFEST.json from the table below (so that it is always schema-valid)."""
import json, os, sys
V = os.path.dirname(os.path.dirname(os.path.abspath(__file__)))
ALL = ['C%02d' % i for i in range(1, 20)]

CHECKS = {
 'C04': dict(
   technique='static who-may-write rules for the pairing counter and the transaction list; path rules over RES_IDLE and the tx constructor (clang CFG)',
   text='Decides the counter/list discipline that pairing rests on, for every path: the transaction list is appended only by the constructor with index = size, slots are only NULLed or shifted off the front one-for-one with the pairing counter, every path of RES_IDLE that starts a response reads transactions[out_next_tx_index] before exactly one ++, and the pipelining flag is raised exactly under size > out_next_tx_index evaluated before the append. Not decided: that ids carried in request i and response i meet (values).',
   note='Values are not tracked. Hybrid-mode callers that bind transactions themselves are outside the rule.',
   ref='§4.4'),
 'C05': dict(
   technique='static dominance / must-pass-through rules on the completion functions, who-may-run for the completion hooks; thorough tier: finite typestate abstraction of both state machines extracted from the CFG facts',
   text='Decides for all paths: each completion hook is run at guarded sites only (progress set to COMPLETE first, under a dominating not-yet-COMPLETE test; TRANSACTION_COMPLETE only under is_complete which requires both sides), completion is atomic with detaching the transaction (the known F4 early returns are reported as known findings), progress fields only take phase constants and move backwards only in the 100-continue arm. Callback order over whole runs is decided by the typestate exploration in the thorough tier.',
   note='Assumes callbacks return documented codes. Two known findings (F4 and its sibling return).',
   ref='§4.5'),
 'C16': dict(
   technique='static edge-dominance and must-pass-through rules on the drivers and CONNECT states; path-enumerated exactness row for the DATA_OTHER hand-over',
   text='Decides for all paths: the TUNNEL test dominates every dispatch and is repeated after every OK state return before hooks can run; TUNNEL is entered only under the documented conditions and for both directions together; the CONNECT suspension and probe paths never move the cursor or consume; the response side yields at transaction end exactly when documented and its flag has one setter. Not decided: byte-exact resume position as a value.',
   note='Assumes callbacks return documented codes.',
   ref='§4.16'),
 'C09': dict(
   technique='static CFG rules: edge dominance of the sticky-state guards, path-enumerated rc->stream-state decision table of both drivers, guard facts at every HTP_DATA/HTP_DATA_BUFFER return of the 24 state functions',
   text='Decides, for every path of the two driver functions and of every state function, the structural part of the stream contract: STOP/ERROR are tested before any effect and return the same state; only documented states are returned; the mapping from state-function result to stream state and returned value follows the documented table; a state function asks for more data only with the chunk exhausted; the consumed accessor and byte counters are wired to the read offset / chunk length. Not decided: liveness (no endless DATA_OTHER ping-pong).',
   note='Assumes callbacks return documented status codes. Value-level claims (exact consumed count) are reduced to which field is returned and where it is advanced.',
   ref='§4.9'),
 'C19': dict(
   technique='static effect analysis: who-may-write over the whole-library call graph (function-pointer slots resolved), alias closure for the one escaping global',
   text='Non-interference by construction, decided for every path of every function: no global/static is written, nothing reachable from the stream API stores through a configuration object or calls a libc function with process-wide state, the hook runners are read-only. Holds for all inputs and schedules because it is a property of the code, not of a run.',
   note='Assumes user callbacks do not mutate the configuration; zlib/LZMA state is per stream; indirect calls are resolved by slot. One recorded finding (umask toggling in multipart file extraction).',
   ref='§4.19'),
}
NA = {
 'C02': 'parse fidelity is an equality between runtime byte strings and the wire over a grammar of inputs; no clause of it is visible in the shape of the code, and a static proxy would be a frozen fragment (DESIGN.md §4.2)',
}

def main():
    checks = []
    for pid in ALL:
        if pid not in CHECKS:
            continue
        c = CHECKS[pid]
        checks.append(dict(
            property_id=pid,
            quick_cmd='./check %s --tier quick' % pid,
            thorough_cmd='./check %s --tier thorough' % pid,
            evidence_file='/verif/evidence/%s.json' % pid,
            replay_cmd_template='./check %s --replay {path}' % pid,
            engine='htpfacts+sa',
            level_claimed=dict(category='other', text=c['text'], design_ref=c['ref']),
            level_note=c['note'],
            technique=c['technique']))
    na = [dict(property_id=p, reason=NA.get(p, 'check not built yet (work in progress; see DESIGN.md §4 for the planned structural clauses)')) for p in ALL if p not in CHECKS]
    m = dict(
        version=1,
        setup_cmd='./setup.sh',
        hooks=dict(guard='LIBHTP_VERIF', enable='none needed: the checks are static and read the sources of /repo directly; no hook code exists',
                   baseline_off_cmd='make -C /repo/test check', source_commits=[], add_only=True),
        engines=[dict(name='htpfacts+sa', path='/verif/tools/htpfacts.cc, /verif/sa', serves_properties=sorted(CHECKS),
                      kind_free_text='clang 14 libTooling fact extractor (type-checked AST + clang::CFG per function, as JSON) and python rule engines: dominance / edge dominance, must-pass-through, who-may-write effects over the call graph, nullness and ownership dataflow, guard-chain decision tables, difference-bound guard analysis, finite typestate abstraction')],
        checks=checks,
        notes='Static analysis only: no check builds or runs the library. exit 2 (ANALYSIS-BROKEN) means the analysis could not run (unit does not parse, anchor function vanished, instance floor not met); it is neither a pass nor a violation.',
        not_applicable=na)
    json.dump(m, open(os.path.join(V, 'MANIFEST.json'), 'w'), indent=1)
    print('MANIFEST.json: %d checks, %d not_applicable' % (len(checks), len(na)))

if __name__ == '__main__':
    main()
