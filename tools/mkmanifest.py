#!/usr/bin/env python3
"""Generates /verif/MANIFEST.json from the table below (so that it is always schema-valid)."""
import json, os, sys
V = os.path.dirname(os.path.dirname(os.path.abspath(__file__)))
ALL = ['C%02d' % i for i in range(1, 20)]

CHECKS = {
 'C01': dict(
   technique='static: ownership inference vs destructor release sets; must-analysis for guarded reads of the caller chunk; difference-bound guard analysis classifying 257 subscripts on (array,length) pairs (PROVED / REFUTED / UNKNOWN, unsigned-wrap detection); must-precede for unlink-before-free; use-after-may-destroy; nullness of container lookups; contradiction rule for the NULL chunk pointer',
   text='The whole property (no UB for every input) is not decidable with the tools available; decided are necessary conditions, each for every path: every owning field (96 inferred) is released by its record\'s destructor (D13 found, replayed with LeakSanitizer, repaired); reads of the caller\'s chunk follow a fresh index < len test; subscripts on paired arrays are PROVED (213) or UNKNOWN (listed), an off-by-one guard or an unguarded unsigned x - k index is REFUTED (D12 found, replayed with UBSan, repaired); the tx destructor unlinks before free; no dereference after a call that may free the tx; container lookups are NULL-tested or index-bounded; arithmetic on the possibly-NULL chunk pointer is guarded (D16 x4 recorded).',
   note='UNKNOWN sites are reported in evidence and never alarm. Callbacks are opaque and well behaved. Index arithmetic by small constants does not wrap.',
   ref='§4.1'),
 'C02': dict(
   technique='static: provenance classification of every store to the wire-derived strings (copy of bytes of the current line / NULL / tabled placeholder); linear-form rule that every such slice ends at a scan position; loop-structure rule that the line splitters step the cursor only past bytes their loop condition looked at; path rule for the merge of repeated header fields',
   text='The statement itself - what is reported equals what was on the wire - is an equality between runtime byte strings over a grammar of inputs and is NOT decided. Decided, each for every path, are structural facts that this equality rests on and whose violation breaks it: every string of the parse result that the statement lists (request/response line, method, URI, protocol, status, message, header names and values in the stream parsers) is stored as NULL, as a copy of bytes of the current line, or as the one tabled placeholder - never a literal or bytes of another object; in each such copy (data + S, n) the end S + n is a variable of the function (the cursor where the scan stopped, or the length), not a constant distance from one, and S is a variable or a variable + 1; in the request-line and status-line splitters the cursor only steps over bytes that the condition of the enclosing loop examined; on the repetition arm of both header processors the existing value grows by ", " and then the new value. Neighbouring facts the statement also needs are decided under the properties that own them (line assembly and folding across chunks C03, repetition flags C11, port range C13, case-insensitive first-match lookup C17, derived Host C11).',
   note='A necessary-condition check only: the choice of delimiters, the derived fields (cookies, credentials, parameters) and equality as such are not covered.',
   ref='§4.2'),
 'C14': dict(
   technique='static forward must-analysis (typestate) for the carried CR, pairing rules for the piece builders, exit rules for the boundary-matching state',
   text='Decides the set-aside / replay discipline that chunk independence of the multipart parser rests on, for every path: cr_aside is overwritten only when no CR is owed (D4 found here, replayed and repaired by fix 66cffda), every builder to_str is followed by clear before reuse, every exit from the boundary state replays the stored pieces first and they are cleared only after the replay, the end-of-chunk delivery excludes exactly the set-aside CR, text parts become parameters with their own name and value. Not decided: byte-exact part contents and flag equality across chunkings.',
   note='Values are not tracked.',
   ref='§4.14'),
 'C15': dict(
   technique='static path rules on the streaming key/value scanner and field assembler (delimiters per state, end-of-chunk store vs emit by path enumeration with feasibility pruning, finalisation order, builder pairing)',
   text='Thin by design: equality with the reference split/decoding is a statement about values. Decided for every path: the scanner ends a key at =, separator or end of input and a value only at separator or end of input, hands [startpos,pos) to the assembler and restarts after the delimiter; a field cut by the end of a chunk is stored (once) and no pair is emitted, otherwise at most one pair per call; finalisation sets the complete flag before flushing; name and value are decoded when enabled.',
   note='Thin claim: only the carry of a half-built field across calls and the delimiter structure are decided.',
   ref='§4.15'),
 'C03': dict(
   technique='static abstract walk of every peek site with "no byte available" (finite evaluation of the branch conditions on next_byte = -1 / chunk exhausted) reporting commit actions reachable before the function defers; carry-protocol pairing rules; enumeration of direct look-ahead conditions',
   text='Decides the mechanism that makes chunk boundaries invisible, for every path: all 12 peek sites are classified (defer / closed-only / commits); a site that commits at end of chunk is a violation unless its two outcomes agree on well-formed input (tabled with reasons) - F1 and D5 are recorded findings; a byte accumulated without being consumed is never followed by HTP_DATA; a consolidated line is cleared (or handed on / rewound) before OK; carried bytes are appended at the fill offset; the 8 direct look-ahead conditions are reviewed heuristics and a new one alarms. Not decided: equality of the two parses as values.',
   note='The statement is about well-formed exchanges; heuristics for ill-formed input are tabled, not alarmed. Known findings F1, D5.',
   ref='§4.3'),
 'C18': dict(
   technique='static interprocedural nullness dataflow over every may-fail allocation result; dangling-owner rule (free of a long-lived field / out-parameter with an exit that neither reassigns it nor releases its owner, completed at call sites); must-analysis for shallow-copy aliasing; hand-over atomicity rule',
   text='Decides for every allocation site and every path, i.e. for the failure of any single allocation: the NULL result is tested before any dereference (201 tracked results, summaries for 368 dereferencing parameters), no owner field or out-parameter is left pointing at freed memory on an error exit (four such defects D1a-d were found, replayed by k-th-allocation failure and repaired by fix commits), a shallow copy is not destroyed while it aliases the original (D2, recorded), element hand-over between two owners has no exit inside the moving loop (D17 x3, recorded). Not decided: that later calls keep honouring the API contract after a failure.',
   note='Leaks on failure paths are not C18 violations. Two sites are suppressed by name as infeasible with their reason (htp_hook_register, htp_ch_urlencoded_callback_request_line).',
   ref='§4.18'),
 'C12': dict(
   technique='static call-order rule on the normalisation pipeline, forward must-analysis "write index tested since its last increment" for every in-place routine, call-graph reachability and sibling agreement of anomaly raise sites, bijection between configuration setters and decoder fields',
   text='Decides for all paths: the path arm runs decode, then UTF-8 best-fit or validation, then dot-segment removal; in every in-place routine each write through data[w++] follows a fresh w < len test and the result length is the write index (never longer); every anomaly indicator of the statement has a raise site in the path pipeline and every NUL test raises its indicator (D10 repaired by fix 0d226e4); each decoder option has exactly one setter writing it from its parameter for the context and the defaults (D11 repaired by fix 8c4f013). Not decided: equality with a reference decoder, idempotence, absence of dot segments in the result.',
   note='Values are not tracked.',
   ref='§4.12'),
 'C13': dict(
   technique='static dominance rules on the URI splitter (which component may be stored under which test), source-of-bytes rule, agreement of the two port-range predicates',
   text='Decides for all paths: a scheme is stored only when the target does not start with a slash, authority components only after a scheme and the double-slash marker, every component is a bstr_dup_mem copy of bytes of the input buffer, both port predicates accept exactly 1..65535 of a base-10 parse and mark everything else invalid with port -1. Not decided: that the slices partition the target (values).',
   note='Values are not tracked.',
   ref='§4.13'),
 'C17': dict(
   technique='static ring-buffer rules (wrap test after every cursor increment, size bookkeeping paired with element store/removal by path enumeration, growth re-linearisation, guarded index forms), overflow pre-check dominance in the integer parser, comparator/iteration rules for the table getters, one add-variant per table',
   text='Decides the structural invariants the abstract-type behaviour rests on, for all paths: list cursors wrap, current_size moves exactly with element stores/removals, growth resets all four fields and copies head then tail adjacently, every elements[E] uses a guarded index form; the multiply-accumulate of the integer parser is dominated by the INT64_MAX pre-check, chunk length is capped at INT32_MAX, status valid iff 100..999; table getters fold case, scan pairs from 0 and return the first match, each table uses one key-ownership variant. Not decided: agreement with a reference model on values.',
   note='Byte-string scan loops are covered by the guarded-read rules of C01.',
   ref='§4.17'),
 'C11': dict(
   technique='static decision-table extraction: path enumeration over the T-E/C-L and Host arbitration regions, rows of the statement checked on every path with untested trigger atoms counted as possibly true; flag-namespace rule (tested flags have raise sites)',
   text='Decides for every path of the arbitration code: each ambiguity trigger named in the statement leads to the required indicator(s) and framing decision (request and response arms), no indicator is raised where no row applies, invalid-host indicators are raised under both the syntax and the validation result, a repeated header always carries REPEATED. Three recorded findings (D7 dead FOLDED flag, D8 repeated/folded C-L not examined next to an unsupported T-E). Not decided: robustness of the token/number parsers to spelling of header values.',
   note='Header order / case / whitespace independence rests on the case-folding table getters (C17) and on values, which are not tracked.',
   ref='§4.11'),
 'C06': dict(
   technique='static pairing rules by path enumeration over the body states: delivery <-> entity accounting, sibling agreement of the five bulk-consume blocks, wire hand-over <-> message accounting, must-precede for the end-of-body marker',
   text='Decides for all paths: every body-data delivery is preceded exactly once by entity_len += that record\'s len; after a successful bulk hand-over the read/consume/stream offsets (and message length, and remaining length) move by exactly the amount handed over, once, with the amount min(remaining, available); every wire hand-over is accounted in message_len (one recorded finding: REQ_FINALIZE unexpected body); the end-of-body marker precedes the completion hook whenever a body exists. Not decided: that the concatenation of deliveries equals the entity body.',
   note='Values are not tracked; chunk-size parsing is not part of this check. One known finding (D9).',
   ref='§4.6'),
 'C07': dict(
   technique='static must-pass-through rule for the bomb test in every function stored in the decompressor callback slot, reaching definitions of every handed-out (data,len), abstract exploration of the decompress routine in the ended state, loop-path rule for layer limits',
   text='Decides the bound part for all paths: each decompressor callback passes the (limit && 2048x ratio) test after accounting before it can return OK; every record handed on is the 8 KiB buffer with len <= GZIP_BUF_SIZE or the input unchanged; a failed delivery ends the decompressor and the ended state never hands the buffer out again (D6, repaired by fix 9b680f3); layer limits precede every creation in the multi-coding loop. The restart-after-consumption defect F12 is a recorded finding. Not decided: fidelity of the inflated bytes.',
   note='zlib / LZMA SDK are trusted to respect avail_out. One known finding (F12), one fixed defect (D6).',
   ref='§4.7'),
 'C08': dict(
   technique='static cap-dominates-growth rules and a loop-nesting rule (callee looping over the unconsumed span or a per-transaction container, reached once per byte / per line, needs a dominating cap)',
   text='Timing is not a static quantity. Decided for all paths: every cap the code relies on for linear work is in force (hard limit before buffer growth, folded cap, repetition cap, HTTP/0.9 junk cap, empty chunk-length line consumed, NUL skip before the inner search loop), and helpers that rescan a growing span/container per byte or per line are reported: three recorded findings (uncapped header-table scan on both sides, per-byte chunk-length probe), each replayed as quadratic.',
   note='An O(n) bound for all inputs is not decided. Known findings D14 (x2), D22.',
   ref='§4.8'),
 'C10': dict(
   technique='static limit-before-growth must-pass-through rules on the buffering routines, header processors and tx creation; error-discipline rule on every caller of the buffering routines',
   text='Decides for all paths: the hard field limit is tested on (buffered + new + pending header) before every malloc/realloc of the line buffer and exceeding it is an error that every caller propagates (the one ignoring caller, D21, was replayed and repaired by fix dbeb37b); folded and repeated headers grow only under their caps; transactions are created only through the max_tx test; auto-destroy runs on every successful completion path; a previous decompressor chain is destroyed before a new one is stored. Not decided: steady-state heap size as a number.',
   note='Heap size after N transactions is a run-time quantity.',
   ref='§4.10'),
 'C04': dict(
   technique='static who-may-write rules for the pairing counter and the transaction list; path rules over RES_IDLE and the tx constructor (clang CFG)',
   text='Decides the counter/list discipline that pairing rests on, for every path: the transaction list is appended only by the constructor with index = size, slots are only NULLed or shifted off the front one-for-one with the pairing counter, every path of RES_IDLE that starts a response reads transactions[out_next_tx_index] before exactly one ++, and the pipelining flag is raised exactly under size > out_next_tx_index evaluated before the append. Not decided: that ids carried in request i and response i meet (values).',
   note='Values are not tracked. Hybrid-mode callers that bind transactions themselves are outside the rule.',
   ref='§4.4'),
 'C05': dict(
   technique='static dominance / must-pass-through rules on the completion functions, who-may-run for the completion hooks; thorough tier: finite typestate abstraction of both state machines extracted from the CFG facts',
   text='Decides for all paths: each completion hook is run at guarded sites only (progress set to COMPLETE first, under a dominating not-yet-COMPLETE test; TRANSACTION_COMPLETE only under is_complete which requires both sides), completion is atomic with detaching the transaction (the known F4 early returns are reported as known findings), progress fields only take phase constants and move backwards only in the 100-continue arm. Callback order over whole runs is decided by the typestate exploration in the thorough tier.',
   note='Assumes callbacks return documented codes. Two known findings (F4 and its sibling return).',
   ref='§4.5'),
 'C16': dict(
   technique='static edge-dominance and must-pass-through rules on the drivers and CONNECT states; path-enumerated exactness row for the DATA_OTHER hand-over',
   text='Decides for all paths: the TUNNEL test dominates every dispatch and is repeated after every OK state return before hooks can run; TUNNEL is entered only under the documented conditions and for both directions together; the CONNECT suspension and probe paths never move the cursor or consume; the response side yields at transaction end exactly when documented and its flag has one setter. Not decided: byte-exact resume position as a value.',
   note='Assumes callbacks return documented codes.',
   ref='§4.16'),
 'C09': dict(
   technique='static CFG rules: edge dominance of the sticky-state guards, path-enumerated rc->stream-state decision table of both drivers, guard facts at every HTP_DATA/HTP_DATA_BUFFER return of the 24 state functions',
   text='Decides, for every path of the two driver functions and of every state function, the structural part of the stream contract: STOP/ERROR are tested before any effect and return the same state; only documented states are returned; the mapping from state-function result to stream state and returned value follows the documented table; a state function asks for more data only with the chunk exhausted; the consumed accessor and byte counters are wired to the read offset / chunk length. Not decided: liveness (no endless DATA_OTHER ping-pong).',
   note='Assumes callbacks return documented status codes. Value-level claims (exact consumed count) are reduced to which field is returned and where it is advanced.',
   ref='§4.9'),
 'C19': dict(
   technique='static effect analysis: who-may-write over the whole-library call graph (function-pointer slots resolved), alias closure for the one escaping global',
   text='Non-interference by construction, decided for every path of every function: no global/static is written, nothing reachable from the stream API stores through a configuration object or calls a libc function with process-wide state, the hook runners are read-only. Holds for all inputs and schedules because it is a property of the code, not of a run.',
   note='Assumes user callbacks do not mutate the configuration; zlib/LZMA state is per stream; indirect calls are resolved by slot. One recorded finding (umask toggling in multipart file extraction).',
   ref='§4.19'),
}
NA = {
}

# clauses added in the second half of the build round (appended to the entries above; DESIGN.md §4 has the detail)
ADD = {
 'C01': dict(technique='abstract interpretation over the zone domain (difference-bound matrices: thresholds widening on back edges, delayed join at switch dispatch, partition by flag locals, parameter ranges of static functions) classifying 405 subscripts incl. fixed-size arrays and out-parameter views; bounded-copy rule on linear forms for every memcpy-family call; loop-carried overwrite rule for owning slots',
             text='Also decided: every memcpy / memmove / strncpy / snprintf-family copy fits its destination (capacity from the array type, sizeof of the same type, or the closest dominating allocation; linear forms plus zone facts; 27 of 33 decided, the rest UNKNOWN); no loop can come back to a store `slot = alloc()` with the slot still holding the previous allocation. Subscript figures today: 405 classified, 365 PROVED, 0 REFUTED, 40 UNKNOWN (36 in the LZMA SDK hash tables).'),
 'C03': dict(technique='pairing rule for the carry buffer pointer and its size; sentinel-safe byte loads (type rule)',
             text='Also decided: the carry-buffer pointer and its size change together on every path; every byte stored into an integer that is compared with -1 is loaded as unsigned char.'),
 'C04': dict(technique='path rule with flag replay for the interim-100 arm; linear-form agreement between the ring guard and both element reads',
             text='Also decided: an interim 100 without body headers always returns to the status-line state (never completes the transaction); htp_list_array_get / replace address slot (first + idx) mod max_size (linear forms).'),
 'C05': dict(technique='thorough tier: finite typestate abstract interpretation of both drivers and every state function with a monitor automaton, both directions exhausted (676 + 509 between-call abstract states)',
             text='Thorough tier: callback order and nothing-after-COMPLETE for all inputs, chunkings and callback return values in the abstract system; five non-included behaviours are recorded findings (D19, D26a-d), each replayed.'),
 'C06': dict(technique='forward must-pass pairing of every consume-cursor advance with message-length accounting',
             text='Also decided: in every body state each direct advance of the consume cursor by A is paired with *_message_len advancing by A before the function is left or the cursor advances again.'),
 'C07': dict(technique='path enumeration with flag replay for the decompression-disabled configuration; loop-carried-counter rule',
             text='Also decided: with response decompression disabled no decompressor is created except for the documented user override; the counters compared with the layer limits are initialised before the token loop.'),
 'C09': dict(technique='thorough tier: typestate clause over all reachable abstract states', text='Thorough tier: in every reachable abstract state with status ERROR / STOP / TUNNEL a driver call runs no callback of that direction.'),
 'C12': dict(technique='interprocedural hex-offset summaries against dominating isxdigit tests; loop-iteration rules for the UTF-8 scanners; flag-sensitive must-analysis for cursor progress',
             text='Also decided: hex validation covers exactly the bytes each decoder reads; the UTF-8 byte counter restarts at every character boundary; every iteration of a scanning loop advances the read cursor (two reviewed bounded stalls tabled).'),
 'C13': dict(technique='effect summary (writes through a parameter, transitively) for the raw components; path-wise evaluation of pointers and lengths as linear forms for split completeness',
             text='Also decided: the window over the target is not handed out by address; the normaliser never writes the raw components; for every memchr split of the authority the bytes in front of the delimiter (or the whole window) end up in a component on every path - D29 found by this rule, replayed and repaired. Partition of the target outside the authority remains undecided.'),
 'C14': dict(technique='sibling agreement of the stores to the pending header line; must-pass rule in finalisation; exactness of look-ahead guards',
             text='Also decided: the kept part-header line is trimmed whichever way it arrived (D28 found, replayed, repaired); finalisation replays set-aside bytes or knows there are none (D30 found, replayed, repaired); every text part becomes a parameter; look-ahead guards of the escape handling are exact.'),
 'C15': dict(technique='sentinel-safe byte loads (type rule)', text='Also decided: the scanner reads bytes as unsigned char before comparing with the -1 end-of-chunk sentinel.'),
 'C16': dict(technique='pairing of the status-line state with the progress reset; thorough tier typestate clause',
             text='Also decided: every return of the response parser to the status-line state resets response_progress, so an interim response does not release the CONNECT wait gate.'),
 'C17': dict(technique='must-pass rule for computed cursor positions; path rule for the integer parser tail; loop-structure rule for the NUL-insensitive comparator',
             text='Also decided: a computed position is stored into a ring cursor only after its wrap test; the whitespace-tolerant integer parser returns the number only with the cursor at the end; the NUL-insensitive comparator skips trailing NULs of its first operand before comparing lengths.'),
}
ADD2 = {
 'C01': 'Also: sub-windows (A + k, n) handed to memchr/memcmp-family calls or to functions with adjacent (pointer, length) parameters stay inside the window the caller pairs A with, and an unsigned count x - c cannot have wrapped (102 hand-overs, 96 decided).',
 'C03': 'Also: after the copy into the carry buffer the consumer position is moved up on every successful path; the six request/response pairs of buffering and receiver helpers are mirror images (the buffering pair up to one reviewed statement).',
 'C04': 'Also: tx->index (creation ordinal) never addresses the transaction list, whose positions move when finished transactions are shifted off.',
 'C06': 'Also: the body hook runners return in front of the hooks only for data != NULL (the end-of-body marker always passes); the chunk-data states and the hybrid body entry points of the two directions are mirror images up to one reviewed statement.',
 'C07': 'Also: the time budget is charged with exactly the elapsed microseconds (linear form on both arms of the helper); a response body state that handles stream closure tests for it before it can return "need more data".',
 'C09': 'Also: the byte trackers count on every path that has a connection; tracker, consumed-count accessor and state-change handler pairs are mirror images. Recorded D23 instance keys say what is untested, so a variant that tests nothing is a new violation.',
 'C11': 'Also: the request-target host is validated whoever built parsed_uri (a URI supplied in hybrid mode included).',
 'C16': 'Also: every method name of the method table is reachable under the guards in front of its comparison; direction isolation - a function of one direction stores to the other direction\'s state only at the 23 tabled hand-over points and does not read the other direction\'s twin of a field it has itself.',
 'C17': 'Also: response_status_number is replaced by INVALID only on paths that failed a test of the number itself.',
 'C19': 'Also: the ten request/response pairs of hook-registration and decompression setters are mirror images.',
}
for _p, _t in ADD2.items():
    ADD.setdefault(_p, dict(technique='', text=''))
    ADD[_p]['text'] = (ADD[_p]['text'] + ' ' + _t).strip()
    if not ADD[_p]['technique']:
        ADD[_p]['technique'] = 'sibling (mirror-function) agreement'
ADD3 = {
 'C01': ('interprocedural escape analysis of caller-owned byte buffers (returns-alias / keeps / returns-fresh summaries to a fixpoint)', 'Also: gap handling is safe without a chunk; a pointer into a caller\'s bytes (every (bytes, length) parameter, the data field of data records, the current chunk) is never stored in a structure or container that outlives the call, except at three reviewed sites and in the setters whose caller chooses the allocation strategy (118 buffers followed); no pointer is dereferenced at a point from which its own NULL test is reached without an assignment in between (1119 tests).'),
 'C02': ('mined co-update invariants (fields written together at every site)', 'Also: every server personality fills all four parser slots; the base64 decoder step and carry change together.'),
 'C06': ('mined co-update invariants (fields written together at every site)', 'Also: the stream offset moves wherever the read offset of the same direction advances and vice versa; a body data record gets transaction and length together.'),
 'C07': ('mined co-update invariants (fields written together at every site)', 'Also: request-side decompression is set up only when enabled and torn down with the transaction; the zlib input and output windows are always set as (pointer, size) pairs.'),
 'C08': ('', 'Also: the token loop of the encoding list is bounded on every iteration.'),
 'C09': ('error-discipline rule (majority-checked status functions; the minority read and tabled)', 'Also: for every status-returning function whose status is acted upon at three or more call sites (133 sites), no site drops it - as an expression statement or through a variable that is overwritten or abandoned unread - except 7 reviewed sites.'),
 'C10': ('', 'Also: reclamation of finished transactions does not depend on where the response cursor stands.'),
 'C13': ('', 'Also: the window/raw rules of the authority split; userinfo split at the first colon.'),
 'C14': ('', 'Also: at end of stream the last part is not finalised with a set-aside CR still owed; a part whose type has been decided is in data mode on every path to the exit, error exits included.'),
 'C15': ('mined co-update invariants (fields written together at every site)', 'Also: a parameter record gets value, name, source and parser id together wherever it is made.'),
 'C17': ('', 'Also: the integer parser accepts only at the end of the text.'),
 'C18': ('interprocedural release summaries (RELEASES, RELEASES-ON-FAILURE)', 'Also: a failed call leaves its arguments to the caller wherever the caller releases them on the failure branch (28 sites); the recorded capacity of a buffer changes only after realloc succeeded (6 sites incl. the vendored LZMA decoder; reported D32, repaired); the LZMA decoder is marked ready only on the success edge of its lazy allocation.'),
 'C19': ('', 'Also: private configuration copies deep-copy every hook and are destroyed with their owner.'),
}
# second build round: rules added per property; the shared clauses are appended from sa/imports.py below
ADD4 = {
 'C01': ('belief rule: what a function frees on one exit it frees (or hands on) on every exit', 'Also: a view handed out through (&data, &len) - the consolidated line - is never lengthened by hand; positions and lengths kept in parser state records are not narrowed; a local that a function releases on one of its exits is released, stored, returned or handed to a keeper on every exit.'),
 'C02': ('sibling agreement of the passes of a two-pass scanner (iteration-path signatures)', 'Also: the measuring pass and the copying pass over a quoted string step over an escape the same way; the header line parked for a possible continuation is processed before the header state is left (D43 found, replayed, repaired).'),
 'C03': ('who-may-write rule for the carry buffers', 'Also: a state function that consumed a consolidated line clears the line buffer before it consolidates again (D42 found here and by C06.i, replayed, repaired); only the buffering helpers store to, free or reallocate the carry buffers.'),
 'C05': ('who-may tables (callers of htp_tx_finalize; writers of each progress phase)', 'Also: no function reaches htp_tx_finalize twice for one transaction on one path, and only functions that have just completed a side call it; the function that runs a HEADERS or TRAILER hook has flushed that stage\'s data receiver and runs the hook on every successful path; each progress phase is stored only by the states that begin that part of the message.'),
 'C06': ('', 'Also: no path counts a line in *_message_len and then un-reads it (D42: 34 wire bytes reported as 42; replayed, repaired); a framing line that is consumed has been counted on that path; the chunk-length probe judges the line from its first byte, not the byte at hand; the hand-over functions never branch on a hook field.'),
 'C07': ('', 'Also: an LZMA decoder is set up only under lzma_memlimit > 0 and response_lzma_layer_limit > 0; the Content-Encoding token scanner reads its separators as a set of characters and each token is scanned once (D46 found, replayed, repaired); the retry ladder of the decompressor is not cut short by a look at the payload; the gzip header probe answers 0 when the header is not complete in the chunk; configured limits are clamped to the range of their field before they are narrowed.'),
 'C08': ('', 'Also: beyond the repetition cap a repeated header line never reads through the stored value again.'),
 'C09': ('', 'Also: a request-side transition called from the response side (and vice versa) is guarded by that direction\'s status != ERROR and != STOP (D44 found, replayed: three request callbacks after HTP_STREAM_ERROR; repaired).'),
 'C11': ('', 'Also: the list-member matcher of htp_header_has_token resets its comparison offset whenever it gives up on a member; the field name is trimmed in a loop in both generic header parsers.'),
 'C12': ('interval computation of the code points admitted by the guards of each raise site', 'Also: an unfinished multi-byte sequence at the end of the path raises the invalid-UTF-8 indicator in both scanners (D40 found, replayed, repaired); the half/full-width indicator is raised for exactly U+FF00..U+FFEF at all four sites (D41 found, replayed, repaired); best-fit lookups leave their loop only on equality tests.'),
 'C13': ('', 'Also: what the authority splitter hands out (host, port text, port number) is stored on every successful path of htp_parse_uri_hostport; the hybrid setters store exactly the (pointer, length) they are given.'),
 'C14': ('', 'Also: a look-ahead data[pos + k] in htp_mpartp_parse raises no flag and stores no state on the paths where that byte is not in this chunk.'),
 'C15': ('', 'Also: the decode switch of the urlencoded parser is written only by its constructor / setter, never by the code that feeds it.'),
 'C16': ('', 'Also: both FINALIZE states reach a completion call only on a closed stream or after the look-ahead; the CONNECT wait gate is keyed on response_progress; no transaction is created by the response side while the request side is parked on a CONNECT (D45 found, replayed, recorded); only the CONNECT states suspend and only the CONNECT check enters the body decision, on the method alone; method names are compared byte for byte.'),
 'C17': ('', 'Also: every substring search advances its start position by exactly one per attempt; no numeric parser leaves a scan of the text because a subscript cursor reached a constant.'),
 'C18': ('', 'Also: a header / parameter record that is already in its table never gets the result of a may-fail call stored straight into its name or value; the one suppression by name (htp_hook_register) re-checks its premise on every run.'),
 'C19': ('', 'Also: every writable global and function-local static is followed through its aliases (locals, parameters, record fields), whether it escapes as a call argument or by assignment.'),
}
for _p, (_tech, _t) in ADD4.items():
    ADD.setdefault(_p, dict(technique='', text=''))
    ADD[_p]['text'] = (ADD[_p]['text'] + ' ' + _t).strip()
    if _tech:
        ADD[_p]['technique'] = (ADD[_p]['technique'] + '; ' + _tech).strip('; ')
sys.path.insert(0, V)
from sa import imports as _imports
for _p, _lst in _imports.IMPORTS.items():
    _names = ', '.join('%s (%s)' % (', '.join(_r), _src) for _src, _r, _why in _lst)
    ADD.setdefault(_p, dict(technique='', text=''))
    ADD[_p]['text'] = (ADD[_p]['text'] + ' Shared clauses, evaluated again as part of this check because breaking them breaks this property too (sa/imports.py gives the reason for each): ' + _names + '.').strip()
    ADD[_p]['technique'] = (ADD[_p]['technique'] + '; rules of neighbouring properties that are necessary conditions of this one are re-evaluated by this check (shared clauses)').strip('; ')
for _p, (_tech, _t) in ADD3.items():
    ADD.setdefault(_p, dict(technique='', text=''))
    ADD[_p]['text'] = (ADD[_p]['text'] + ' ' + _t).strip()
    if _tech:
        ADD[_p]['technique'] = (ADD[_p]['technique'] + '; ' + _tech).strip('; ')
for _p, _a in ADD.items():
    if _a['technique']:
        CHECKS[_p]['technique'] += '; ' + _a['technique']
    CHECKS[_p]['text'] += ' ' + _a['text']

def main():
    checks = []
    for pid in ALL:
        if pid not in CHECKS:
            continue
        c = CHECKS[pid]
        checks.append(dict(
            property_id=pid,
            quick_cmd='./check %s --tier quick' % pid,
            thorough_cmd='./check %s --tier thorough' % pid,
            evidence_file='/verif/evidence/%s.json' % pid,
            replay_cmd_template='./check %s --replay {path}' % pid,
            engine='htpfacts+sa',
            level_claimed=dict(category='other', text=c['text'], design_ref=c['ref']),
            level_note=c['note'],
            technique=c['technique']))
    na = [dict(property_id=p, reason=NA.get(p, 'check not built yet (work in progress; see DESIGN.md §4 for the planned structural clauses)')) for p in ALL if p not in CHECKS]
    m = dict(
        version=1,
        setup_cmd='./setup.sh',
        hooks=dict(guard='LIBHTP_VERIF', enable='none needed: the checks are static and read the sources of /repo directly; no hook code exists',
                   baseline_off_cmd='make -C /repo/test check', source_commits=[], add_only=True),
        engines=[dict(name='htpfacts+sa', path='/verif/tools/htpfacts.cc, /verif/sa', serves_properties=sorted(CHECKS),
                      kind_free_text='clang 14 libTooling fact extractor (type-checked AST + clang::CFG per function, as JSON) and python rule engines: dominance / edge dominance, must-pass-through, who-may-write effects over the call graph, nullness and ownership dataflow, guard-chain decision tables, difference-bound guard analysis, finite typestate abstraction')],
        checks=checks,
        notes='Static analysis only: no check builds or runs the library. exit 2 (ANALYSIS-BROKEN) means the analysis could not run (unit does not parse, anchor function vanished, instance floor not met); it is neither a pass nor a violation.',
        not_applicable=na)
    json.dump(m, open(os.path.join(V, 'MANIFEST.json'), 'w'), indent=1)
    print('MANIFEST.json: %d checks, %d not_applicable' % (len(checks), len(na)))

if __name__ == '__main__':
    main()
