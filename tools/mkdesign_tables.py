#!/usr/bin/env python3
"""Regenerates the machine-made parts of DESIGN.md (between the AUTO markers): the rule inventory taken from the
evidence files of the last run, the findings list from known_findings.json and the seeded-change table from
seeded/*/result.json + meta."""
import json, os, glob, re
V = os.path.dirname(os.path.dirname(os.path.abspath(__file__)))


def rules_table():
    out = ['| property | rule | what is decided (for every path) | obligations on the pinned tree (holds / known findings / unknown) |', '|---|---|---|---|']
    for p in sorted(glob.glob(os.path.join(V, 'evidence', 'C*.json'))):
        e = json.load(open(p))
        for r, d in e['coverage'].get('per_rule', {}).items():
            out.append('| %s | %s | %s | %d / %d / %d |' % (e['property_id'], r, d['text'].replace('|', '\\|'), d['holds'], d['violated'], d['unknown']))
    return '\n'.join(out)


def findings_table():
    k = json.load(open(os.path.join(V, 'known_findings.json')))
    out = ['| property | rule | instance key | what fails |', '|---|---|---|---|']
    for f in k['findings']:
        out.append('| %s | %s | `%s` | %s |' % (f['property'], f['rule'], f['key'].replace('|', '\\|'), f['what'].replace('|', '\\|')))
    out.append('')
    out.append('Repaired defects (`fix:` commits in /repo; a fixed entry suppresses nothing):')
    out.append('')
    for f in k['fixed']:
        out.append('* ' + f)
    return '\n'.join(out)


def seeded_table():
    out = ['| seeded change | breaks | what it is | needs to manifest | checks (rules) that report it |', '|---|---|---|---|---|']
    for d in sorted(glob.glob(os.path.join(V, 'seeded', '*'))):
        sid = os.path.basename(d)
        meta = {}
        for fn in ('meta.json', 'meta.agent.json'):
            if os.path.exists(os.path.join(d, fn)):
                try:
                    meta = json.load(open(os.path.join(d, fn)))
                    break
                except Exception:
                    pass
        res = json.load(open(os.path.join(d, 'result.json'))) if os.path.exists(os.path.join(d, 'result.json')) else {}
        fired = '; '.join('%s [%s]' % (p, ', '.join(sorted({l.split(' ')[0] for l in ls}))) for p, ls in res.get('fired', {}).items()) or '**none**'
        out.append('| %s | %s | %s | %s | %s |' % (sid, meta.get('property', sid[:3].upper()), str(meta.get('summary', ''))[:260].replace('|', '\\|').replace('\n', ' '),
                                                  str(meta.get('needs_to_manifest', ''))[:220].replace('|', '\\|').replace('\n', ' '), fired))
    return '\n'.join(out)


def main():
    p = os.path.join(V, 'DESIGN.md')
    s = open(p).read()
    for name, fn in (('RULES', rules_table), ('FINDINGS', findings_table), ('SEEDED', seeded_table)):
        a, b = '<!-- AUTO:%s -->' % name, '<!-- /AUTO:%s -->' % name
        if a in s and b in s:
            s = s[:s.index(a) + len(a)] + '\n' + fn() + '\n' + s[s.index(b):]
    open(p, 'w').write(s)


if __name__ == '__main__':
    main()
