#!/bin/sh
# usage: seedconfirm.sh <worktree> <n> <seeded-id>
# Confirms a seeded change in its own scratch worktree (never in /repo): with the patch the library builds,
# the 341 tests pass and the demo fails; without it the demo passes. Then stores it under /verif/seeded/<id>/.
W=$1; N=$2; ID=$3
cd "$W" || exit 2
git checkout -q -- 'htp/*.c' 'htp/*.h'
git apply "out/$N/patch.diff" || { echo "patch does not apply"; exit 2; }
make -j16 >/dev/null 2>&1 || { echo "BUILD FAILS with patch"; git checkout -q -- 'htp/*.c' 'htp/*.h'; exit 1; }
make -C test check >/dev/null 2>&1
T1=$(tail -2 test/test_all.log | head -1)
gcc -g -I. -Ihtp "out/$N/demo.c" htp/.libs/libhtp.a -lz -lpthread -o "out/$N/demo.with" 2>/dev/null
(cd "$W" && timeout 120 "out/$N/demo.with" >/tmp/seed-demo-with.$$ 2>&1); R1=$?
git checkout -q -- 'htp/*.c' 'htp/*.h'
make -j16 >/dev/null 2>&1; make -C test check >/dev/null 2>&1
gcc -g -I. -Ihtp "out/$N/demo.c" htp/.libs/libhtp.a -lz -lpthread -o "out/$N/demo.without" 2>/dev/null
(cd "$W" && timeout 120 "out/$N/demo.without" >/tmp/seed-demo-without.$$ 2>&1); R0=$?
echo "$ID: tests-with-patch='$T1' demo-with-patch-exit=$R1 demo-without-patch-exit=$R0"
if echo "$T1" | grep -q "PASSED  \] 341" && [ "$R1" != 0 ] && [ "$R0" = 0 ]; then
  mkdir -p /verif/seeded/$ID
  cp "out/$N/patch.diff" "out/$N/demo.c" /verif/seeded/$ID/
  cp "out/$N/meta.json" /verif/seeded/$ID/meta.agent.json 2>/dev/null
  tail -5 /tmp/seed-demo-with.$$ > /verif/seeded/$ID/demo-output-with-patch.txt
  echo CONFIRMED
else
  echo NOT-CONFIRMED; tail -5 /tmp/seed-demo-with.$$
fi
rm -f /tmp/seed-demo-with.$$ /tmp/seed-demo-without.$$
