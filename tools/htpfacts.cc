// htpfacts: generic fact extractor (DESIGN.md §2.1). Emits, per translation unit, one JSON object with
// functions (clang::CFG, root statements as expression trees), records, enums and globals.
// It knows nothing about the properties.
#include "clang/AST/ASTConsumer.h"
#include "clang/AST/RecursiveASTVisitor.h"
#include "clang/AST/ParentMap.h"
#include "clang/Analysis/CFG.h"
#include "clang/Frontend/CompilerInstance.h"
#include "clang/Frontend/FrontendAction.h"
#include "clang/Lex/Lexer.h"
#include "clang/Tooling/CommonOptionsParser.h"
#include "clang/Tooling/Tooling.h"
#include "llvm/Support/CommandLine.h"
#include "llvm/Support/JSON.h"
#include <set>
#include <cstdlib>
#include <cstring>
using namespace clang; using namespace clang::tooling; namespace json = llvm::json;
static llvm::cl::OptionCategory Cat("htpfacts");

struct Ser {
  ASTContext &C; SourceManager &SM;
  Ser(ASTContext &C) : C(C), SM(C.getSourceManager()) {}
  std::string loc(SourceLocation L) {
    if (L.isInvalid()) return "";
    SourceLocation E = SM.getExpansionLoc(L);
    PresumedLoc P = SM.getPresumedLoc(E);
    if (P.isInvalid()) return "";
    std::string f = P.getFilename();
    const char *root = getenv("HTPFACTS_ROOT");
    if (root && f.compare(0, strlen(root), root) == 0) { f = f.substr(strlen(root)); while (!f.empty() && f[0] == '/') f = f.substr(1); }
    else { auto p = f.rfind('/'); if (p != std::string::npos) f = f.substr(p + 1); }
    return f + ":" + std::to_string(P.getLine()) + ":" + std::to_string(P.getColumn());
  }
  std::string macro(SourceLocation L) {
    if (L.isMacroID()) { 
      // outermost macro name
      SourceLocation Cur = L; std::string name;
      while (Cur.isMacroID()) { name = Lexer::getImmediateMacroName(Cur, SM, C.getLangOpts()).str(); Cur = SM.getImmediateMacroCallerLoc(Cur); }
      return name; }
    return "";
  }
  std::string innermost_macro(SourceLocation L) {
    if (!L.isMacroID()) return "";
    // object-like macro whose whole expansion is this literal (e.g. HTP_DATA_BUFFER -> 5)
    if (SM.isMacroBodyExpansion(L)) return Lexer::getImmediateMacroName(L, SM, C.getLangOpts()).str();
    return "";
  }
  static std::string recname(const RecordDecl *RD) {
    std::string n = RD->getNameAsString();
    if (n.empty()) if (auto *TD = RD->getTypedefNameForAnonDecl()) n = TD->getNameAsString();
    return n;
  }
  std::string declid(const VarDecl *VD) {
    // identity of a declaration within the unit (two block-scoped locals of the same name differ)
    PresumedLoc P = SM.getPresumedLoc(SM.getExpansionLoc(VD->getLocation()));
    return VD->getNameAsString() + "@" + (P.isValid() ? std::to_string(P.getLine()) + ":" + std::to_string(P.getColumn()) : std::string("?"));
  }
  std::string ty(QualType T) { return T.getCanonicalType().getAsString(); }
  json::Value expr(const Stmt *S) {
    if (!S) return nullptr;
    json::Object o;
    o["loc"] = loc(S->getBeginLoc());
    std::string m = macro(S->getBeginLoc()); if (!m.empty()) o["macro"] = m;
    if (auto *E = dyn_cast<Expr>(S)) {
      o["t"] = ty(E->getType());
      Expr::EvalResult R;
      if (!isa<IntegerLiteral>(E) && !E->isValueDependent() && E->getType()->isIntegralOrEnumerationType() && E->EvaluateAsInt(R, C)) {
        // constant-foldable (macros, enum constants, sizeof)
        o["k"] = "lit"; o["v"] = (int64_t)R.Val.getInt().getExtValue();
        if (auto *DR = dyn_cast<DeclRefExpr>(E->IgnoreParenImpCasts())) o["name"] = DR->getDecl()->getNameAsString();
        else if (auto *UE = dyn_cast<UnaryExprOrTypeTraitExpr>(E->IgnoreParenImpCasts())) { if (UE->getKind() == UETT_SizeOf) o["sizeof"] = ty(UE->getTypeOfArgument()); }
        else { std::string mn = innermost_macro(S->getBeginLoc()); if (!mn.empty()) o["name"] = mn; }
        return std::move(o);
      }
    }
    if (auto *P = dyn_cast<ParenExpr>(S)) return expr(P->getSubExpr());
    if (auto *IC = dyn_cast<ImplicitCastExpr>(S)) return expr(IC->getSubExpr());
    if (auto *CE = dyn_cast<CStyleCastExpr>(S)) { o["k"] = "cast"; o["e"] = expr(CE->getSubExpr()); return std::move(o); }
    if (auto *IL = dyn_cast<IntegerLiteral>(S)) { o["k"] = "lit"; o["v"] = (int64_t)IL->getValue().getLimitedValue(); std::string mn = innermost_macro(S->getBeginLoc()); if (!mn.empty()) o["name"] = mn; return std::move(o); }
    if (auto *CL = dyn_cast<CharacterLiteral>(S)) { o["k"] = "lit"; o["v"] = (int64_t)CL->getValue(); return std::move(o); }
    if (auto *SL = dyn_cast<StringLiteral>(S)) { o["k"] = "str"; o["v"] = SL->getBytes().str(); return std::move(o); }
    if (auto *DR = dyn_cast<DeclRefExpr>(S)) {
      const ValueDecl *D = DR->getDecl(); o["name"] = D->getNameAsString();
      if (isa<FunctionDecl>(D)) o["k"] = "fn";
      else if (auto *VD = dyn_cast<VarDecl>(D)) { o["k"] = "var"; o["decl"] = isa<ParmVarDecl>(VD) ? "param" : VD->hasGlobalStorage() ? (VD->isStaticLocal() ? "static" : "global") : "local"; o["did"] = declid(VD); }
      else o["k"] = "ref";
      return std::move(o);
    }
    if (auto *ME = dyn_cast<MemberExpr>(S)) {
      o["k"] = "member"; o["field"] = ME->getMemberDecl()->getNameAsString(); o["arrow"] = ME->isArrow();
      if (auto *FD = dyn_cast<FieldDecl>(ME->getMemberDecl())) o["rec"] = recname(FD->getParent());
      o["base"] = expr(ME->getBase()); return std::move(o);
    }
    if (auto *AS = dyn_cast<ArraySubscriptExpr>(S)) { o["k"] = "index"; o["base"] = expr(AS->getBase()); o["idx"] = expr(AS->getIdx()); return std::move(o); }
    if (auto *UO = dyn_cast<UnaryOperator>(S)) { o["k"] = "un"; o["op"] = UnaryOperator::getOpcodeStr(UO->getOpcode()).str() + (UO->isPostfix() ? "post" : ""); o["e"] = expr(UO->getSubExpr()); return std::move(o); }
    if (auto *BO = dyn_cast<BinaryOperator>(S)) { o["k"] = BO->isAssignmentOp() ? "assign" : "bin"; o["op"] = BO->getOpcodeStr().str(); o["l"] = expr(BO->getLHS()); o["r"] = expr(BO->getRHS()); return std::move(o); }
    if (auto *CO = dyn_cast<ConditionalOperator>(S)) { o["k"] = "cond"; o["c"] = expr(CO->getCond()); o["a"] = expr(CO->getTrueExpr()); o["b"] = expr(CO->getFalseExpr()); return std::move(o); }
    if (auto *CE = dyn_cast<CallExpr>(S)) {
      o["k"] = "call"; if (auto *FD = CE->getDirectCallee()) o["callee"] = FD->getNameAsString(); else o["fnexpr"] = expr(CE->getCallee());
      json::Array a; for (auto *A : CE->arguments()) a.push_back(expr(A)); o["args"] = std::move(a); return std::move(o);
    }
    if (auto *DS = dyn_cast<DeclStmt>(S)) {
      o["k"] = "decl"; json::Array a;
      for (auto *D : DS->decls()) if (auto *VD = dyn_cast<VarDecl>(D)) { json::Object v; v["name"] = VD->getNameAsString(); v["t"] = ty(VD->getType()); v["did"] = declid(VD); if (VD->hasInit()) v["init"] = expr(VD->getInit()); a.push_back(std::move(v)); }
      o["vars"] = std::move(a); return std::move(o);
    }
    if (auto *RS = dyn_cast<ReturnStmt>(S)) { o["k"] = "return"; if (RS->getRetValue()) o["e"] = expr(RS->getRetValue()); return std::move(o); }
    if (auto *UE = dyn_cast<UnaryExprOrTypeTraitExpr>(S)) { o["k"] = "sizeof"; return std::move(o); }
    if (auto *IL = dyn_cast<InitListExpr>(S)) { o["k"] = "initlist"; json::Array a; for (auto *I : IL->inits()) a.push_back(expr(I)); o["e"] = std::move(a); return std::move(o); }
    o["k"] = std::string("other:") + S->getStmtClassName();
    json::Array ch; for (auto *Ch : S->children()) ch.push_back(expr(Ch)); o["ch"] = std::move(ch);
    return std::move(o);
  }
};

static void collect(const Stmt *S, std::set<const Stmt *> &out) { if (!S) return; for (auto *C : S->children()) if (C) { out.insert(C); collect(C, out); } }

struct V : RecursiveASTVisitor<V> {
  ASTContext &C; json::Array &Fns; json::Array &Globals; json::Array &Recs; json::Array &Enums;
  V(ASTContext &C, json::Array &F, json::Array &G, json::Array &R, json::Array &E) : C(C), Fns(F), Globals(G), Recs(R), Enums(E) {}
  bool VisitEnumDecl(EnumDecl *ED) {
    if (!ED->isCompleteDefinition()) return true;
    json::Object o; o["name"] = ED->getNameAsString(); if (auto *TD = ED->getTypedefNameForAnonDecl()) o["typedef"] = TD->getNameAsString();
    json::Array es; for (auto *E : ED->enumerators()) { json::Object eo; eo["name"] = E->getNameAsString(); eo["v"] = (int64_t)E->getInitVal().getExtValue(); es.push_back(std::move(eo)); }
    o["enumerators"] = std::move(es); Enums.push_back(std::move(o)); return true;
  }
  bool VisitVarDecl(VarDecl *VD) {
    if (!VD->hasGlobalStorage() || !C.getSourceManager().isInMainFile(C.getSourceManager().getExpansionLoc(VD->getLocation()))) return true;
    if (!VD->isThisDeclarationADefinition()) return true;
    json::Object o; o["name"] = VD->getNameAsString(); o["t"] = VD->getType().getAsString(); o["const"] = VD->getType().isConstQualified() || (VD->getType()->isArrayType() && C.getBaseElementType(VD->getType()).isConstQualified());
    o["static_local"] = VD->isStaticLocal(); o["has_init"] = VD->hasInit(); o["storage"] = VD->getStorageClass() == SC_Static ? "static" : "extern";
    { Ser S(C); o["loc"] = S.loc(VD->getLocation()); }
    if (auto *FD = dyn_cast_or_null<FunctionDecl>(VD->getParentFunctionOrMethod())) o["in_function"] = FD->getNameAsString();
    if (VD->hasInit()) {
      // functions whose address is stored by the initialiser (slot = record field when the initialiser is a flat list)
      json::Array fr;
      const Expr *I = VD->getInit()->IgnoreParenImpCasts();
      const RecordType *RT = VD->getType().getCanonicalType()->getAs<RecordType>();
      if (auto *IL = dyn_cast<InitListExpr>(I)) {
        std::vector<const FieldDecl *> fields; if (RT) for (auto *F : RT->getDecl()->fields()) fields.push_back(F);
        for (unsigned i = 0; i < IL->getNumInits(); i++) {
          const Expr *E = IL->getInit(i)->IgnoreParenImpCasts();
          if (auto *UO = dyn_cast<UnaryOperator>(E)) if (UO->getOpcode() == UO_AddrOf) E = UO->getSubExpr()->IgnoreParenImpCasts();
          if (auto *DR = dyn_cast<DeclRefExpr>(E)) if (isa<FunctionDecl>(DR->getDecl())) {
            json::Object e; e["fn"] = DR->getDecl()->getNameAsString();
            if (RT && i < fields.size()) { e["rec"] = RT->getDecl()->getNameAsString(); if (e["rec"].getAsString()->empty()) if (auto *TD = RT->getDecl()->getTypedefNameForAnonDecl()) e["rec"] = TD->getNameAsString(); e["field"] = fields[i]->getNameAsString(); }
            fr.push_back(std::move(e));
          }
        }
      } else if (auto *DR = dyn_cast<DeclRefExpr>(I)) { if (isa<FunctionDecl>(DR->getDecl())) { json::Object e; e["fn"] = DR->getDecl()->getNameAsString(); fr.push_back(std::move(e)); } }
      o["init_fns"] = std::move(fr);
    }
    Globals.push_back(std::move(o)); return true;
  }
  bool VisitRecordDecl(RecordDecl *RD) {
    if (!RD->isCompleteDefinition()) return true;
    auto &SM = C.getSourceManager(); std::string f = SM.getFilename(SM.getExpansionLoc(RD->getLocation())).str();
    { const char *root = getenv("HTPFACTS_ROOT"); std::string r = root ? root : "/repo"; if (f.compare(0, r.size(), r) != 0) return true; }
    json::Object o; o["name"] = Ser::recname(RD); json::Array fs;
    for (auto *F : RD->fields()) { json::Object fo; fo["name"] = F->getNameAsString(); fo["t"] = F->getType().getCanonicalType().getAsString(); fs.push_back(std::move(fo)); }
    if (!RD->isInvalidDecl() && !RD->isDependentType()) o["size"] = (int64_t)C.getTypeSizeInChars(C.getRecordType(RD)).getQuantity();
    o["fields"] = std::move(fs); Recs.push_back(std::move(o)); return true;
  }
  bool VisitFunctionDecl(FunctionDecl *F) {
    if (!F->doesThisDeclarationHaveABody()) return true;
    auto &SM = C.getSourceManager();
    if (!SM.isInMainFile(SM.getExpansionLoc(F->getLocation()))) return true;
    Ser S(C);
    CFG::BuildOptions bo; // default
    auto cfg = CFG::buildCFG(F, F->getBody(), &C, bo);
    json::Object fo; fo["name"] = F->getNameAsString(); fo["loc"] = S.loc(F->getLocation()); fo["end"] = S.loc(F->getBody()->getEndLoc()); fo["static"] = F->getStorageClass() == SC_Static; fo["ret"] = S.ty(F->getReturnType());
    json::Array ps; for (auto *P : F->parameters()) { json::Object po; po["name"] = P->getNameAsString(); po["t"] = S.ty(P->getType()); ps.push_back(std::move(po)); } fo["params"] = std::move(ps);
    if (!cfg) { fo["cfg"] = nullptr; Fns.push_back(std::move(fo)); return true; }
    fo["entry"] = cfg->getEntry().getBlockID(); fo["exit"] = cfg->getExit().getBlockID();
    json::Array blocks;
    for (auto *B : *cfg) {
      json::Object bo2; bo2["id"] = B->getBlockID();
      std::vector<const Stmt *> elems;
      for (auto &E : *B) if (auto CS = E.getAs<CFGStmt>()) elems.push_back(CS->getStmt());
      // roots: not a descendant of a later element in the same block nor of the terminator condition
      std::vector<std::set<const Stmt *>> desc(elems.size());
      for (size_t i = 0; i < elems.size(); i++) collect(elems[i], desc[i]);
      json::Array roots; int condIdx = -1; const Stmt *TC = B->getTerminatorCondition();
      for (size_t i = 0; i < elems.size(); i++) {
        bool nested = false; for (size_t j = i + 1; j < elems.size() && !nested; j++) if (desc[j].count(elems[i])) nested = true;
        if (nested) continue;
        if (TC && (elems[i] == TC)) condIdx = (int)roots.size();
        roots.push_back(S.expr(elems[i]));
      }
      bo2["stmts"] = std::move(roots);
      if (const Stmt *T = B->getTerminatorStmt()) {
        json::Object to; to["kind"] = T->getStmtClassName(); if (auto *BO = dyn_cast<BinaryOperator>(T)) to["op"] = BO->getOpcodeStr().str();
        to["loc"] = S.loc(T->getBeginLoc());
        if (TC) { to["cond"] = S.expr(TC); to["cond_in_stmts"] = condIdx; }
        bo2["term"] = std::move(to);
      }
      if (const Stmt *L = B->getLabel()) {
        json::Object lo; lo["kind"] = L->getStmtClassName();
        if (auto *CS = dyn_cast<CaseStmt>(L)) { Expr::EvalResult R; if (CS->getLHS()->EvaluateAsInt(R, C)) lo["v"] = (int64_t)R.Val.getInt().getExtValue(); }
        if (auto *LS = dyn_cast<LabelStmt>(L)) lo["name"] = LS->getName();
        bo2["label"] = std::move(lo);
      }
      json::Array succ; for (auto SI = B->succ_begin(); SI != B->succ_end(); ++SI) { if (SI->getReachableBlock()) succ.push_back((int64_t)SI->getReachableBlock()->getBlockID()); else if (SI->getPossiblyUnreachableBlock()) succ.push_back((int64_t)SI->getPossiblyUnreachableBlock()->getBlockID()); else succ.push_back(nullptr); }
      bo2["succs"] = std::move(succ);
      blocks.push_back(std::move(bo2));
    }
    fo["blocks"] = std::move(blocks);
    Fns.push_back(std::move(fo));
    return true;
  }
};
struct Cons : ASTConsumer { void HandleTranslationUnit(ASTContext &C) override { json::Array F, G, R, E; V v(C, F, G, R, E); v.TraverseDecl(C.getTranslationUnitDecl()); json::Object o; o["functions"] = std::move(F); o["globals"] = std::move(G); o["records"] = std::move(R); o["enums"] = std::move(E); llvm::outs() << json::Value(std::move(o)) << "\n"; } };
struct Act : ASTFrontendAction { std::unique_ptr<ASTConsumer> CreateASTConsumer(CompilerInstance &, StringRef) override { return std::make_unique<Cons>(); } };
int main(int argc, const char **argv) { auto P = CommonOptionsParser::create(argc, argv, Cat); if (!P) { llvm::errs() << P.takeError(); return 2; } ClangTool T(P->getCompilations(), P->getSourcePathList()); int rc = T.run(newFrontendActionFactory<Act>().get()); return rc ? 2 : 0; }
