#!/usr/bin/env python3
"""Spelling robustness test: behaviour-preserving respellings applied by regular expression to a scratch copy of the sources
(outside the LZMA SDK): `X == NULL` -> `!X`, `X != NULL` -> `X` inside conditions of simple access paths, Yoda order for
comparisons with upper-case constants, `v++;` -> `++v;` and `v += 1;` for statement-level increments. The copy must still
compile; every quick check is run on it and the (rule, instance, status) sets are compared with /repo.
usage: robust_rewrite.py [null] [yoda] [incr]   (default: all three, one after the other on the same copy)"""
import json, os, re, shutil, subprocess, sys
V = os.path.dirname(os.path.dirname(os.path.abspath(__file__)))
sys.path.insert(0, os.path.join(V, 'selftest'))
from run import scratch
which = sys.argv[1:] or ['null', 'yoda', 'incr']
props = [c['property_id'] for c in json.load(open(os.path.join(V, 'MANIFEST.json')))['checks']]
PATH = r'[A-Za-z_]\w*(?:(?:->|\.)[A-Za-z_]\w*)*'


def run_all(repo):
    out = {}
    for p in props:
        r = subprocess.run([os.path.join(V, 'check'), p, '--repo', repo, '--json-obligations'], capture_output=True, text=True, env=dict(os.environ, VERIF_NO_EVIDENCE='1'))
        obs = None
        for l in r.stdout.split('\n'):
            if l.startswith('OBLIGATIONS '):
                obs = json.loads(l[len('OBLIGATIONS '):])
        out[p] = (r.returncode, obs, r.stdout[-400:])
    return out


def rewrite(t):
    n = 0
    out = []
    for ln in t.split('\n'):
        if ln.lstrip().startswith(('#', '//', '*', '/*')):
            out.append(ln)
            continue
        code, sep, cmt = ln.partition('//')
        if 'null' in which and re.search(r'\b(if|while)\s*\(', code):
            code, c1 = re.subn(r'(?<![\w>.\)\]*&])(' + PATH + r')\s*==\s*NULL\b', r'!\1', code)
            code, c2 = re.subn(r'(?<![\w>.\)\]!*&])(' + PATH + r')\s*!=\s*NULL\b(?!\s*\?)', r'\1', code)
            n += c1 + c2
        if 'yoda' in which:
            code, c3 = re.subn(r'(?<![\w>.\)\]])(' + PATH + r')\s*(==|!=)\s*(HTP_[A-Z0-9_]+|CR|LF)\b(?!\s*\()', r'\3 \2 \1', code)
            n += c3
        if 'incr' in which:
            m = re.match(r'^(\s*)(' + PATH + r')\+\+;\s*$', code)
            if m:
                code = '%s%s;' % (m.group(1), ('++' + m.group(2)) if (len(out) % 2) else (m.group(2) + ' += 1'))
                n += 1
        out.append(code + sep + cmt)
    return '\n'.join(out), n


d = scratch()
try:
    flags = ['-DHAVE_CONFIG_H', '-I' + d, '-I' + os.path.join(d, 'htp'), '-I' + os.path.join(V, 'tools', 'fallback_include'), '-D_GNU_SOURCE', '-std=gnu99', '-w']
    files = sorted(os.path.join(d, 'htp', f) for f in os.listdir(os.path.join(d, 'htp')) if f.endswith('.c') and f != 'htp_request_parsers.c')
    tot = 0
    for f in files:
        t, n = rewrite(open(f, errors='replace').read())
        tot += n
        open(f, 'w').write(t)
    print('%d respellings (%s)' % (tot, ', '.join(which)))
    bad = 0
    for f in files:
        r = subprocess.run(['clang', '-fsyntax-only'] + flags + [f], capture_output=True, text=True)
        if r.returncode != 0:
            bad += 1
            print('DOES NOT COMPILE:', f, r.stderr.split('\n')[0][:200])
    if bad:
        sys.exit(2)
    base, got = run_all('/repo'), run_all(d)
    diffs = 0
    for p in props:
        (rc0, o0, t0), (rc1, o1, t1) = base[p], got[p]
        s0 = {(o['rule'], o['instance'], o['status']) for o in (o0 or [])}
        s1 = {(o['rule'], o['instance'], o['status']) for o in (o1 or [])}
        if rc0 != rc1 or s0 != s1:
            diffs += 1
            print('DIFF %s exit %s -> %s' % (p, rc0, rc1))
            if o1 is None:
                print('   ', t1.replace('\n', '\n    '))
            for x in sorted(s0 - s1)[:8]:
                print('    only on /repo    :', x)
            for x in sorted(s1 - s0)[:8]:
                print('    only on respelled:', x)
        else:
            print('same %s (%d obligations)' % (p, len(s0)))
    print('%d differences' % diffs)
    sys.exit(1 if diffs else 0)
finally:
    if os.environ.get('KEEP_SCRATCH'):
        print('scratch kept at', d)
    else:
        shutil.rmtree(d, ignore_errors=True)
