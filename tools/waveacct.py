#!/usr/bin/env python3
"""usage: waveacct.py: per wave of seeded changes (the last two waves: f, g = the last six ids of every property), how many are
reported by the check of their own property / by some check / by none, from seeded/*/result.json.  Also writes meta.json for ids
that do not have one yet (tools/mkseedmeta.py)."""
import json, os, re, subprocess, sys
V = os.path.dirname(os.path.dirname(os.path.abspath(__file__)))
sd = os.path.join(V, 'seeded')
byp = {}
for d in os.listdir(sd):
    m = re.match(r'^(c\d\d)-(\d+)$', d)
    if m:
        byp.setdefault(m.group(1), []).append(int(m.group(2)))
waves = {'f': [], 'g': [], 'h': [], 'earlier': []}
WAVE_H = {'c01', 'c02', 'c03', 'c04', 'c05', 'c06', 'c07', 'c09', 'c16'}       # c18's wave-h demonstrations needed a different build line and were not stored
for p, ns in byp.items():
    ns = sorted(ns)
    if p in WAVE_H:
        for n in ns[-3:]:
            waves['h'].append('%s-%d' % (p, n))
        ns = ns[:-3]
    for n in ns[-3:]:
        waves['g'].append('%s-%d' % (p, n))
    for n in ns[-6:-3]:
        waves['f'].append('%s-%d' % (p, n))
    for n in ns[:-6]:
        waves['earlier'].append('%s-%d' % (p, n))
for w in ('earlier', 'f', 'g', 'h'):
    own = some = none = 0
    unrep = []
    for sid in sorted(waves[w]):
        d = os.path.join(sd, sid)
        if not os.path.exists(os.path.join(d, 'meta.json')):
            o = open(os.path.join(d, '.origin')).read().split() if os.path.exists(os.path.join(d, '.origin')) else ['/tmp/seed-%s%s' % (sid[:3], w), '?']
            subprocess.run([sys.executable, os.path.join(V, 'tools', 'mkseedmeta.py'), sid, o[0], o[1]], capture_output=True)
            if os.path.exists(os.path.join(d, '.origin')):
                os.remove(os.path.join(d, '.origin'))
        r = json.load(open(os.path.join(d, 'result.json'))) if os.path.exists(os.path.join(d, 'result.json')) else {'fired': {}}
        if 'C' + sid[1:3] in r['fired']:
            own += 1
        elif r['fired']:
            some += 1
            unrep.append(sid + '(' + ','.join(r['fired']) + ')')
        else:
            none += 1
            unrep.append(sid + '(none)')
    print('wave %-8s %3d changes: %3d reported by the check of their own property, %2d only by another check, %2d by none  %s' % (w, len(waves[w]), own, some, none, ' '.join(unrep)))
