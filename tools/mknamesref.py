#!/usr/bin/env python3
"""writes sa/names_ref.json: for every function of /repo, its parameters and locals (name, kind, type, initialiser shape)
in declaration order. Used by sa.facts.align_names to give a renamed variable its reference name. Regenerate only when the
rules are re-validated against a new pinned tree."""
import json, os, sys
V = os.path.dirname(os.path.dirname(os.path.abspath(__file__)))
sys.path.insert(0, V)
from sa import facts
if os.path.exists(facts.NAMES_REF):
    os.remove(facts.NAMES_REF)
db = facts.load(sys.argv[1] if len(sys.argv) > 1 else '/repo')
out = {n: [list(v) for v in facts.fn_vars(f)] for n, f in sorted(db.fn.items()) if f.blocks}
json.dump(out, open(facts.NAMES_REF, 'w'), indent=0, sort_keys=True)
print('%d functions, %d variables -> %s' % (len(out), sum(len(v) for v in out.values()), facts.NAMES_REF))
